package runner_test

// Native demonstration (real BLS, real SyncCommitteeAggregatorRunner over a real controller, ssv-spec test fixtures):
// a decided sync-committee-contribution duty with three contributions (three signing roots per post-consensus
// message). Operators 1 and 2 send correct messages; operator 3 sends a message whose share for the FIRST root is a
// valid BLS signature made with another key (its other two shares are correct); operator 4 then sends a correct
// message. Correct shares of at least 2f+1 = 3 members have then arrived for every root, but only the first
// contribution is submitted: the quorum edge of roots 2 and 3 was consumed by the call that failed on root 1, and the
// next call sets Finished after submitting root 1 only. The control (operator 3 correct as well) submits all three.

import (
	"testing"

	specqbft "github.com/bloxapp/ssv-spec/qbft"
	spectypes "github.com/bloxapp/ssv-spec/types"
	spectestingutils "github.com/bloxapp/ssv-spec/types/testingutils"
	"github.com/herumi/bls-eth-go-binary/bls"
	"github.com/stretchr/testify/require"

	"github.com/bloxapp/ssv/logging"
	ssvtesting "github.com/bloxapp/ssv/protocol/v2/ssv/testing"
)

func zzRunContribution(t *testing.T, corruptFirstShareOfOp3 bool) int {
	logger := logging.TestLogger(t)
	ks := spectestingutils.Testing4SharesSet()
	r := ssvtesting.SyncCommitteeContributionRunner(logger, ks)
	duty := spectestingutils.TestingSyncCommitteeContributionDuty
	require.NoError(t, r.StartNewDuty(logger, &duty))
	for id := spectypes.OperatorID(1); id <= 3; id++ {
		require.NoError(t, r.ProcessPreConsensus(logger, spectestingutils.PreConsensusContributionProofMsg(ks.Shares[id], ks.Shares[id], id, id)))
	}
	require.NotNil(t, r.GetBaseRunner().State.RunningInstance, "consensus must have started")
	identifier := spectypes.NewMsgID(ssvtesting.TestingSSVDomainType, spectestingutils.TestingValidatorPubKey[:], spectypes.BNRoleSyncCommitteeContribution)
	sks := []*bls.SecretKey{ks.Shares[1], ks.Shares[2], ks.Shares[3]}
	cert := spectestingutils.TestingCommitMultiSignerMessageWithHeightIdentifierAndFullData(sks, []spectypes.OperatorID{1, 2, 3},
		specqbft.Height(duty.Slot), identifier[:], spectestingutils.TestSyncCommitteeContributionConsensusDataByts)
	require.NoError(t, r.ProcessConsensus(logger, cert))
	require.NotNil(t, r.GetBaseRunner().State.DecidedValue, "duty must be decided")

	post := func(id spectypes.OperatorID) *spectypes.SignedPartialSignatureMessage {
		return spectestingutils.PostConsensusSyncCommitteeContributionMsg(ks.Shares[id], id, ks)
	}
	_ = r.ProcessPostConsensus(logger, post(1))
	_ = r.ProcessPostConsensus(logger, post(2))
	m3 := post(3)
	if corruptFirstShareOfOp3 {
		// a well-formed BLS signature over the right root, made with operator 4's share key instead of operator 3's
		root := m3.Message.Messages[0].SigningRoot
		m3.Message.Messages[0].PartialSignature = ks.Shares[4].SignByte(root[:]).Serialize()
		sig, err := spectestingutils.NewTestingKeyManager().SignRoot(m3.Message, spectypes.PartialSignatureType, ks.Shares[3].GetPublicKey().Serialize())
		require.NoError(t, err)
		m3.Signature = sig
	}
	_ = r.ProcessPostConsensus(logger, m3)
	_ = r.ProcessPostConsensus(logger, post(4))
	return len(r.GetBeaconNode().(*spectestingutils.TestingBeaconNode).BroadcastedRoots)
}

func TestZZContributionDroppedByOneBadShare(t *testing.T) {
	want := len(spectestingutils.TestingSyncCommitteeContributions)
	require.Equal(t, want, zzRunContribution(t, false), "control: all shares correct")
	require.Equal(t, want, zzRunContribution(t, true), "one wrong share of one member for the first root: every decided contribution must still be submitted once 2f+1 correct shares have arrived")
}
