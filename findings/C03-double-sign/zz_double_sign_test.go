package runner_test

// Native demonstration (real BLS, real controller with its default instance-container capacity of 2):
// an attester duty is running at height H; decided certificates for H+1 and H+2 arrive first and push the
// running instance out of the controller's container; the decided certificate for H then arrives twice
// (every peer broadcasts it). Before the fix the operator signs the same decided attestation data twice.

import (
	"testing"

	"github.com/attestantio/go-eth2-client/spec/phase0"
	specqbft "github.com/bloxapp/ssv-spec/qbft"
	spectypes "github.com/bloxapp/ssv-spec/types"
	spectestingutils "github.com/bloxapp/ssv-spec/types/testingutils"
	ssz "github.com/ferranbt/fastssz"
	"github.com/herumi/bls-eth-go-binary/bls"
	"github.com/stretchr/testify/require"

	"github.com/bloxapp/ssv/logging"
	"github.com/bloxapp/ssv/protocol/v2/qbft/controller"
	qbfttesting "github.com/bloxapp/ssv/protocol/v2/qbft/testing"
	"github.com/bloxapp/ssv/protocol/v2/ssv/runner"
)

type zzCountingKM struct {
	spectypes.KeyManager
	attesterSigs int
}

func (k *zzCountingKM) SignBeaconObject(obj ssz.HashRoot, domain phase0.Domain, pk []byte, domainType phase0.DomainType) (spectypes.Signature, [32]byte, error) {
	if domainType == spectypes.DomainAttester {
		k.attesterSigs++
	}
	return k.KeyManager.SignBeaconObject(obj, domain, pk, domainType)
}

func TestZZDoubleSignAfterEviction(t *testing.T) {
	logger := logging.TestLogger(t)
	ks := spectestingutils.Testing4SharesSet()
	share := spectestingutils.TestingShare(ks)
	identifier := spectypes.NewMsgID(spectestingutils.TestingSSVDomainType, spectestingutils.TestingValidatorPubKey[:], spectypes.BNRoleAttester)
	net := spectestingutils.NewTestingNetwork()
	km := &zzCountingKM{KeyManager: spectestingutils.NewTestingKeyManager()}
	valCheck := func(data []byte) error { return nil }
	config := qbfttesting.TestingConfig(logger, ks, identifier.GetRoleType())
	config.ValueCheckF = valCheck
	config.ProposerF = func(state *specqbft.State, round specqbft.Round) spectypes.OperatorID { return 1 }
	config.Network = net
	config.Signer = km
	contr := controller.NewController(identifier[:], share, config, false) // production capacity (2)
	r := runner.NewAttesterRunnner(spectypes.BeaconTestNetwork, share, contr, spectestingutils.NewTestingBeaconNode(), net, km, valCheck, 0)

	duty := spectestingutils.TestingAttesterDuty
	require.NoError(t, r.StartNewDuty(logger, &duty))
	H := specqbft.Height(duty.Slot)

	sks := []*bls.SecretKey{ks.Shares[1], ks.Shares[2], ks.Shares[3]}
	ids := []spectypes.OperatorID{1, 2, 3}
	cert := func(h specqbft.Height) *specqbft.SignedMessage {
		return spectestingutils.TestingCommitMultiSignerMessageWithHeightIdentifierAndFullData(sks, ids, h, identifier[:], spectestingutils.TestAttesterConsensusDataByts)
	}
	_ = r.ProcessConsensus(logger, cert(H+1))
	_ = r.ProcessConsensus(logger, cert(H+2))
	require.Equal(t, 0, km.attesterSigs)
	_ = r.ProcessConsensus(logger, cert(H))
	require.Equal(t, 1, km.attesterSigs, "the decided attestation is signed")
	_ = r.ProcessConsensus(logger, cert(H))
	require.Equal(t, 1, km.attesterSigs, "the same decided object must not be signed a second time")
}
