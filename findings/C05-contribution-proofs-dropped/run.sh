#!/bin/bash
# run.sh [repo]: runs the native demonstration against the given checkout (default /repo) through a go test overlay.
REPO=${1:-/repo}
D=$(cd "$(dirname "$0")" && pwd); V=$(cd "$D/../.." && pwd)
MC=$(go env GOMODCACHE)
OV=$(mktemp /tmp/zzov.XXXXXX.json)
cat > $OV <<EOT
{"Replace": {
 "$REPO/protocol/v2/ssv/runner/zz_contrib_proofs_test.go": "$D/zz_contrib_proofs_test.go",
 "$MC/github.com/quic-go/quic-go@v0.33.0/internal/qtls/go121.go": "$V/native/qtls_empty.go",
 "$MC/github.com/quic-go/qtls-go1-20@v0.2.3/unsafe.go": "$V/native/qtls_unsafe.go"}}
EOT
cd $REPO && GOFLAGS=-mod=mod GOPROXY=off GOSUMDB=off GOTOOLCHAIN=local go test -overlay $OV -ldflags=-checklinkname=0 -vet=off -count=1 -run '^TestZZContributionProofsDroppedByOneBadShare$' ./protocol/v2/ssv/runner/ 2>&1 | grep -v "^/usr/bin/ld\|^# github" | tail -n 25
rm -f $OV
