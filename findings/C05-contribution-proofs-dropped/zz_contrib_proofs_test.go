package runner_test

// Native demonstration (real BLS, real SyncCommitteeAggregatorRunner over a real controller, ssv-spec fixtures):
// a sync-committee-contribution duty with three seats (three selection-proof roots per pre-consensus message).
// Operators 1 and 2 send correct messages; operator 3 sends a message whose share for ONE root is a valid BLS
// signature made with another key (its other two shares are correct); operator 4 then sends a correct message.
// Correct shares of 2f+1 = 3 members have then arrived for every root, but the beacon node is asked for the
// contributions of a single seat only (bad share for the first root), or the proof of one subcommittee is paired with
// another subcommittee's id (bad share for a later root). The control (all shares correct) asks for all three seats
// with matching ids.

import (
	"testing"

	"github.com/attestantio/go-eth2-client/spec"
	"github.com/attestantio/go-eth2-client/spec/altair"
	"github.com/attestantio/go-eth2-client/spec/phase0"
	specqbft "github.com/bloxapp/ssv-spec/qbft"
	specssv "github.com/bloxapp/ssv-spec/ssv"
	spectypes "github.com/bloxapp/ssv-spec/types"
	spectestingutils "github.com/bloxapp/ssv-spec/types/testingutils"
	ssz "github.com/ferranbt/fastssz"
	"github.com/herumi/bls-eth-go-binary/bls"
	"github.com/stretchr/testify/require"

	"github.com/bloxapp/ssv/logging"
	"github.com/bloxapp/ssv/protocol/v2/qbft/controller"
	qbfttesting "github.com/bloxapp/ssv/protocol/v2/qbft/testing"
	"github.com/bloxapp/ssv/protocol/v2/ssv/runner"
	ssvtesting "github.com/bloxapp/ssv/protocol/v2/ssv/testing"
)

type zzRecordingBN struct {
	*spectestingutils.TestingBeaconNode
	requests [][]uint64              // subnet ids of every contribution request
	proofs   [][]phase0.BLSSignature // the selection proofs passed with them
}

func (b *zzRecordingBN) GetSyncCommitteeContribution(slot phase0.Slot, selectionProofs []phase0.BLSSignature, subnetIDs []uint64) (ssz.Marshaler, spec.DataVersion, error) {
	b.requests = append(b.requests, subnetIDs)
	b.proofs = append(b.proofs, selectionProofs)
	return b.TestingBeaconNode.GetSyncCommitteeContribution(slot, selectionProofs, subnetIDs)
}

// returns the recorded request and whether every proof verifies under the validator key for the subcommittee it is paired with
func zzRunContributionProofs(t *testing.T, corruptRootOfOp3 int) (*zzRecordingBN, bool) {
	logger := logging.TestLogger(t)
	ks := spectestingutils.Testing4SharesSet()
	share := spectestingutils.TestingShare(ks)
	identifier := spectypes.NewMsgID(ssvtesting.TestingSSVDomainType, spectestingutils.TestingValidatorPubKey[:], spectypes.BNRoleSyncCommitteeContribution)
	net := spectestingutils.NewTestingNetwork()
	km := spectestingutils.NewTestingKeyManager()
	valCheck := specssv.SyncCommitteeContributionValueCheckF(km, spectypes.BeaconTestNetwork, spectestingutils.TestingValidatorPubKey[:], spectestingutils.TestingValidatorIndex)
	config := qbfttesting.TestingConfig(logger, ks, identifier.GetRoleType())
	config.ValueCheckF = valCheck
	config.ProposerF = func(state *specqbft.State, round specqbft.Round) spectypes.OperatorID { return 1 }
	config.Network = net
	config.Signer = km
	contr := controller.NewController(identifier[:], share, config, false)
	bn := &zzRecordingBN{TestingBeaconNode: spectestingutils.NewTestingBeaconNode()}
	r := runner.NewSyncCommitteeAggregatorRunner(spectypes.BeaconTestNetwork, share, contr, bn, net, km, valCheck, 0)

	duty := spectestingutils.TestingSyncCommitteeContributionDuty
	require.NoError(t, r.StartNewDuty(logger, &duty))
	pre := func(id spectypes.OperatorID) *spectypes.SignedPartialSignatureMessage {
		return spectestingutils.PreConsensusContributionProofMsg(ks.Shares[id], ks.Shares[id], id, id)
	}
	_ = r.ProcessPreConsensus(logger, pre(1))
	_ = r.ProcessPreConsensus(logger, pre(2))
	m3 := pre(3)
	if corruptRootOfOp3 >= 0 {
		root := m3.Message.Messages[corruptRootOfOp3].SigningRoot
		m3.Message.Messages[corruptRootOfOp3].PartialSignature = ks.Shares[4].SignByte(root[:]).Serialize()
		sig, err := km.SignRoot(m3.Message, spectypes.PartialSignatureType, ks.Shares[3].GetPublicKey().Serialize())
		require.NoError(t, err)
		m3.Signature = sig
	}
	_ = r.ProcessPreConsensus(logger, m3)
	_ = r.ProcessPreConsensus(logger, pre(4))

	paired := true
	d, _ := bn.DomainData(1, spectypes.DomainSyncCommitteeSelectionProof)
	for ri, req := range bn.requests {
		for j, subnet := range req {
			data := &altair.SyncAggregatorSelectionData{Slot: duty.Slot, SubcommitteeIndex: subnet}
			root, err := spectypes.ComputeETHSigningRoot(data, d)
			require.NoError(t, err)
			if !zzVerify(ks, bn.proofs[ri][j][:], root) {
				paired = false
			}
		}
	}
	return bn, paired
}

func zzVerify(ks *spectestingutils.TestKeySet, sig []byte, root [32]byte) bool {
	s := &bls.Sign{}
	if err := s.Deserialize(sig); err != nil {
		return false
	}
	return s.VerifyByte(ks.ValidatorPK, root[:])
}

func TestZZContributionProofsDroppedByOneBadShare(t *testing.T) {
	want := len(spectestingutils.TestingContributionProofIndexes)
	bn, paired := zzRunContributionProofs(t, -1)
	require.Len(t, bn.requests, 1, "control: one contribution request")
	require.Len(t, bn.requests[0], want, "control: all seats requested")
	require.True(t, paired, "control: every proof belongs to the subcommittee it is paired with")

	bn, paired = zzRunContributionProofs(t, 0)
	require.Len(t, bn.requests, 1)
	t.Logf("bad share for root 0: requested subnets %v, proofs paired correctly: %v", bn.requests[0], paired)
	bad0 := len(bn.requests[0]) != want || !paired

	bn, paired = zzRunContributionProofs(t, 1)
	require.Len(t, bn.requests, 1)
	t.Logf("bad share for root 1: requested subnets %v, proofs paired correctly: %v", bn.requests[0], paired)
	bad1 := len(bn.requests[0]) != want || !paired

	require.False(t, bad0 || bad1, "one wrong share of one member for one root: the contributions of every selected seat must still be requested, each with its own proof, once 2f+1 correct shares have arrived")
}
