package qtls
