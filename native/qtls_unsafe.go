package qtls

import (
	"crypto/tls"
	"reflect"
	"unsafe"
)

func initDisabled() {
	if !structsEqual(&tls.ConnectionState{}, &connectionState{}) {
		panic("qtls.ConnectionState doesn't match")
	}
	if !structsEqual(&tls.ClientSessionState{}, &clientSessionState{}) {
		panic("qtls.ClientSessionState doesn't match")
	}
	if !structsEqual(&tls.CertificateRequestInfo{}, &certificateRequestInfo{}) {
		panic("qtls.CertificateRequestInfo doesn't match")
	}
	if !structsEqual(&tls.Config{}, &config{}) {
		panic("qtls.Config doesn't match")
	}
	if !structsEqual(&tls.ClientHelloInfo{}, &clientHelloInfo{}) {
		panic("qtls.ClientHelloInfo doesn't match")
	}
}

func toConnectionState(c connectionState) ConnectionState {
	return *(*ConnectionState)(unsafe.Pointer(&c))
}

func toClientSessionState(s *clientSessionState) *ClientSessionState {
	return (*ClientSessionState)(unsafe.Pointer(s))
}

func fromClientSessionState(s *ClientSessionState) *clientSessionState {
	return (*clientSessionState)(unsafe.Pointer(s))
}

func toCertificateRequestInfo(i *certificateRequestInfo) *CertificateRequestInfo {
	return (*CertificateRequestInfo)(unsafe.Pointer(i))
}

func toConfig(c *config) *Config {
	return (*Config)(unsafe.Pointer(c))
}

func fromConfig(c *Config) *config {
	return (*config)(unsafe.Pointer(c))
}

func toClientHelloInfo(chi *clientHelloInfo) *ClientHelloInfo {
	return (*ClientHelloInfo)(unsafe.Pointer(chi))
}

func structsEqual(a, b interface{}) bool {
	return compare(reflect.ValueOf(a), reflect.ValueOf(b))
}

func compare(a, b reflect.Value) bool {
	sa := a.Elem()
	sb := b.Elem()
	if sa.NumField() != sb.NumField() {
		return false
	}
	for i := 0; i < sa.NumField(); i++ {
		fa := sa.Type().Field(i)
		fb := sb.Type().Field(i)
		if !reflect.DeepEqual(fa.Index, fb.Index) || fa.Name != fb.Name || fa.Anonymous != fb.Anonymous || fa.Offset != fb.Offset || !reflect.DeepEqual(fa.Type, fb.Type) {
			if fa.Type.Kind() != fb.Type.Kind() {
				return false
			}
			if fa.Type.Kind() == reflect.Slice {
				if !compareStruct(fa.Type.Elem(), fb.Type.Elem()) {
					return false
				}
				continue
			}
			return false
		}
	}
	return true
}

func compareStruct(a, b reflect.Type) bool {
	if a.NumField() != b.NumField() {
		return false
	}
	for i := 0; i < a.NumField(); i++ {
		fa := a.Field(i)
		fb := b.Field(i)
		if !reflect.DeepEqual(fa.Index, fb.Index) || fa.Name != fb.Name || fa.Anonymous != fb.Anonymous || fa.Offset != fb.Offset || !reflect.DeepEqual(fa.Type, fb.Type) {
			return false
		}
	}
	return true
}
