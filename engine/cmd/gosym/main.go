// gosym: symbolic executor for Go SSA (fork of x/tools go/ssa/interp + SMT back end).
//
// usage: gosym -spec spec.json -out result.json
//
// The spec names a package of /repo, harness files that are overlaid into that package
// (in-package, nothing is written to /repo), and the harness functions to explore.
package main

import (
	"encoding/json"
	"flag"
	"fmt"
	"go/types"
	"os"
	"path/filepath"
	"regexp"
	"runtime"
	"runtime/debug"
	"runtime/pprof"
	"strconv"
	"strings"
	"time"

	"golang.org/x/tools/go/packages"
	"golang.org/x/tools/go/ssa"
	"golang.org/x/tools/go/ssa/ssautil"

	"gosym/interp"
)

type FuncSpec struct {
	Name     string            `json:"name"`
	Merge    []string          `json:"merge"`
	Redirect map[string]string `json:"redirect"`
	Int      bool              `json:"int"`
	MaxPaths int               `json:"maxpaths"`
	BudgetS  int               `json:"budget_s"`
	Env      map[string]uint64 `json:"env"` // concrete parameters readable via zzParam(name)
	Fixed    map[string]uint64 `json:"fixed"`
	Prefix   []int             `json:"prefix"`
}

type Spec struct {
	Repo     string            `json:"repo"`
	Pkg      string            `json:"pkg"`
	Dir      string            `json:"dir"`
	Files    []string          `json:"files"`   // harness files (package clause is rewritten to the target package)
	Overlay  map[string]string `json:"overlay"` // extra overlay: virtual path -> real file
	Init     []string          `json:"init"`
	Redirect map[string]string `json:"redirect"`
	Merge    []string          `json:"merge"`
	Opaque   []string          `json:"opaque"`
	Funcs    []FuncSpec        `json:"funcs"`
	Trace    bool              `json:"trace"`
}

type FuncResult struct {
	Name         string             `json:"name"`
	Paths        int                `json:"paths"`
	Nontrivial   int                `json:"nontrivial"`
	Queries      int                `json:"queries"`
	Merges       int                `json:"merges"`
	SolverS      float64            `json:"solver_s"`
	InitS        float64            `json:"init_s"`
	WallS        float64            `json:"wall_s"`
	Witness      map[string]int     `json:"witness"`
	Inconclusive map[string]int     `json:"inconclusive"`
	Violations   []interp.Violation `json:"violations"`
	Samples      []interp.Sample    `json:"samples"`
	Executed     []string           `json:"executed"`
	Stubs        []string           `json:"stubs"`
	Truncated    bool               `json:"truncated"`
	Fatal        string             `json:"fatal,omitempty"`
}

type Result struct {
	LoadS      float64      `json:"load_s"`
	LoadErrors []string     `json:"load_errors"`
	Funcs      []FuncResult `json:"funcs"`
}

var pkgClause = regexp.MustCompile(`(?m)^package\s+\w+`)

func main() {
	specPath := flag.String("spec", "", "spec json")
	outPath := flag.String("out", "", "result json")
	flag.Parse()
	b, err := os.ReadFile(*specPath)
	if err != nil {
		fatal(err)
	}
	var sp Spec
	if err := json.Unmarshal(b, &sp); err != nil {
		fatal(err)
	}
	if sp.Repo == "" {
		sp.Repo = "/repo"
	}
	res := &Result{}
	write := func() {
		ob, _ := json.MarshalIndent(res, "", " ")
		if *outPath == "" {
			os.Stdout.Write(ob)
		} else {
			os.WriteFile(*outPath, ob, 0o644)
		}
	}

	if pf := os.Getenv("GOSYM_CPUPROFILE"); pf != "" {
		f, _ := os.Create(pf)
		pprof.StartCPUProfile(f)
		defer pprof.StopCPUProfile()
	}
	t0 := time.Now()
	gomod := os.Getenv("GOMODCACHE")
	if gomod == "" {
		gomod = filepath.Join(os.Getenv("HOME"), "go/pkg/mod")
	}
	qt := filepath.Join(gomod, "github.com/quic-go/quic-go@v0.33.0/internal/qtls/go121.go")
	overlay := map[string][]byte{qt: []byte("package qtls\n")}
	pkgName := ""
	for _, f := range sp.Files {
		src, err := os.ReadFile(f)
		if err != nil {
			fatal(err)
		}
		overlay[filepath.Join(sp.Repo, sp.Dir, filepath.Base(f))] = src
	}
	for v, r := range sp.Overlay {
		src, err := os.ReadFile(r)
		if err != nil {
			fatal(err)
		}
		overlay[v] = src
	}
	cfg := &packages.Config{Mode: packages.LoadAllSyntax, Dir: sp.Repo,
		Env:     append(os.Environ(), "GOFLAGS=-mod=mod", "GOPROXY=off", "GOSUMDB=off", "GOTOOLCHAIN=local"),
		Overlay: overlay}
	pkgs, err := packages.Load(cfg, sp.Pkg)
	if err != nil {
		fatal(err)
	}
	packages.Visit(pkgs, nil, func(p *packages.Package) {
		for _, e := range p.Errors {
			res.LoadErrors = append(res.LoadErrors, p.PkgPath+": "+e.Error())
		}
	})
	_ = pkgName
	if len(res.LoadErrors) > 0 {
		res.LoadS = time.Since(t0).Seconds()
		write()
		fmt.Fprintln(os.Stderr, "load errors:", strings.Join(res.LoadErrors, "\n"))
		os.Exit(3)
	}
	prog, spkgs := ssautil.AllPackages(pkgs, ssa.InstantiateGenerics)
	prog.Build()
	// the type-checker's side tables and the loader's package graph are no longer needed: drop them so
	// that the garbage collector does not rescan them during the exploration
	for _, p := range pkgs {
		p.TypesInfo = nil
	}
	packages.Visit(pkgs, nil, func(p *packages.Package) { p.TypesInfo = nil; p.Syntax = nil })
	pkgs = nil
	runtime.GC()
	debug.SetGCPercent(gcPercent())
	res.LoadS = time.Since(t0).Seconds()
	fmt.Fprintf(os.Stderr, "loaded+built %.1fs\n", res.LoadS)

	allowInit := map[string]bool{sp.Pkg: true, "github.com/bloxapp/ssv-spec/qbft": true, "fmt": true, "context": true}
	for _, a := range sp.Init {
		allowInit[a] = true
	}
	interp.InitOK = func(p string) bool { return allowInit[p] }
	interp.Opaque = func(p string) bool {
		if strings.HasPrefix(p, "github.com/prometheus/") || strings.HasPrefix(p, "go.uber.org/zap") ||
			strings.HasPrefix(p, "github.com/bloxapp/ssv/logging") || strings.HasSuffix(p, "/metrics") ||
			strings.Contains(p, "metricsreporter") {
			return true
		}
		for _, o := range sp.Opaque {
			if strings.HasPrefix(p, o) {
				return true
			}
		}
		return false
	}
	interp.OpaqueName = func(n string) bool { return strings.Contains(n, ".metrics).") || strings.Contains(n, "etrics).") }
	if f := os.Getenv("GOSYM_SLOWLOG"); f != "" {
		w, _ := os.Create(f)
		interp.SlowLog = w
	}
	if f := os.Getenv("GOSYM_SOLVERLOG"); f != "" {
		w, _ := os.Create(f)
		interp.SolverLog = w
	}
	if d := os.Getenv("GOSYM_QUERYDUMP"); d != "" {
		os.MkdirAll(d, 0o755)
		interp.QueryDumpDir = d
		if n, err := strconv.Atoi(os.Getenv("GOSYM_QUERYDUMP_EVERY")); err == nil && n > 0 {
			interp.QueryDumpEvery = n
		}
	}
	interp.Trace = sp.Trace
	interp.RepoPrefix = "github.com/bloxapp/ssv/"

	for _, fs := range sp.Funcs {
		fr := FuncResult{Name: fs.Name}
		interp.MergeFns = map[string]bool{}
		for _, m := range append(append([]string{}, sp.Merge...), fs.Merge...) {
			interp.MergeFns[m] = true
		}
		interp.Redirects = map[string]*ssa.Function{}
		bad := ""
		for _, rm := range []map[string]string{sp.Redirect, fs.Redirect} {
			for from, to := range rm {
				tgt := spkgs[0].Func(to)
				if tgt == nil {
					bad = "no redirect target " + to
					continue
				}
				interp.Redirects[from] = tgt
			}
		}
		if bad != "" {
			fr.Fatal = bad
			res.Funcs = append(res.Funcs, fr)
			continue
		}
		interp.UseInt = fs.Int
		interp.MaxPaths = fs.MaxPaths
		interp.Params = fs.Env
		interp.SchedNondet, interp.PreemptMax = false, 0
		if k, ok := fs.Env["SCHED_PREEMPT"]; ok {
			interp.SchedNondet, interp.PreemptMax = true, int(k)
		}
		interp.Fixed = fs.Fixed
		interp.StartPrefix = fs.Prefix
		budget := time.Duration(fs.BudgetS) * time.Second
		t1 := time.Now()
		func() {
			defer func() {
				if r := recover(); r != nil {
					fr.Fatal = fmt.Sprint(r)
				}
			}()
			e := interp.Explore(spkgs[0], fs.Name, types.SizesFor("gc", "amd64"), budget)
			fr.Paths, fr.Queries, fr.Merges, fr.Nontrivial = e.Paths, e.Queries, e.Merges, e.Nontrivial
			fr.Witness, fr.Inconclusive = e.Witness, e.Inconcl
			fr.Violations, fr.Samples = e.Viol, e.Samples
			fr.SolverS = e.Z.Wall.Seconds()
			fr.InitS = e.InitWall.Seconds()
			fr.Executed = e.ExecutedList()
			fr.Stubs = e.StubList()
			fr.Truncated = e.Truncated
			e.Z.Close()
		}()
		fr.WallS = time.Since(t1).Seconds()
		fmt.Fprintf(os.Stderr, "%s: paths=%d queries=%d viol=%d inconcl=%d wall=%.1fs fatal=%q\n", fs.Name, fr.Paths, fr.Queries, len(fr.Violations), len(fr.Inconclusive), fr.WallS, fr.Fatal)
		res.Funcs = append(res.Funcs, fr)
		write()
	}
	write()
}

func gcPercent() int {
	if v, err := strconv.Atoi(os.Getenv("GOSYM_GCPERCENT")); err == nil && v > 0 {
		return v
	}
	return 200
}

func fatal(err error) {
	fmt.Fprintln(os.Stderr, "gosym:", err)
	os.Exit(2)
}
