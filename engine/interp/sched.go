package interp

// PROTOTYPE cooperative scheduler: interpreted goroutines run one at a time (baton passing);
// channels are engine objects; select with several ready cases is a decision point.

import (
	"fmt"
)

type schan struct {
	buf      []value
	cap      int
	closed   bool
	sendq    []*pendingSend
	recvWait int
}

type gor struct {
	id     int
	wake   chan struct{}
	ready  func() bool // nil = runnable
	done   bool
	main   bool
	killed bool
	exited chan struct{}
}

type scheduler struct {
	gs      []*gor
	cur     *gor
	abort   interface{} // panic value to deliver to main
	Blocked bool
}

var SCH *scheduler

func newScheduler() *scheduler {
	s := &scheduler{}
	m := &gor{id: 0, wake: make(chan struct{}, 1), main: true}
	s.gs = []*gor{m}
	s.cur = m
	return s
}

type abortGoroutine struct{}

// block parks the current goroutine until ready() holds.
func (s *scheduler) block(ready func() bool) {
	me := s.cur
	if ready() {
		return
	}
	me.ready = ready
	s.switchAway(me)
	me.ready = nil
}

// switchAway picks another runnable goroutine and waits until me is resumed.
func (s *scheduler) switchAway(me *gor) {
	for {
		next := s.pick(me)
		if next == me {
			return
		}
		if next == nil && fireEarliestTimer() {
			// everyone was blocked: virtual time advanced to the earliest timer
			continue
		}
		if next == nil {
			// deadlock: nobody can run
			if me.main {
				panic(pathEnd{"blocked"})
			}
			// hand control to main with blocked indication
			s.abort = pathEnd{"blocked"}
			next = s.gs[0]
		}
		s.cur = next
		next.wake <- struct{}{}
		<-me.wake
		if me.killed {
			panic(abortGoroutine{})
		}
		s.cur = me
		if s.abort != nil {
			if me.main {
				a := s.abort
				s.abort = nil
				s.killAll()
				panic(a)
			}
			panic(abortGoroutine{})
		}
		if me.ready == nil || me.ready() {
			return
		}
	}
}

func (s *scheduler) pick(me *gor) *gor {
	// round-robin starting after me; decision point if several are runnable and ScheduleNondet
	n := len(s.gs)
	start := 0
	for i, g := range s.gs {
		if g == me {
			start = i
		}
	}
	var cands []*gor
	for k := 1; k <= n; k++ {
		g := s.gs[(start+k)%n]
		if g.done {
			continue
		}
		if g.ready == nil && g != me {
			cands = append(cands, g)
		} else if g.ready != nil && g.ready() {
			cands = append(cands, g)
		}
	}
	if len(cands) == 0 {
		return nil
	}
	if SchedNondet && len(cands) > 1 {
		return cands[EX.choose(len(cands))]
	}
	return cands[0]
}

// killAll terminates every interpreted goroutine except main and waits until each has really exited
// (so that nothing of this path still runs when the next path starts).
func (s *scheduler) killAll() {
	for _, g := range s.gs {
		if g.main || g.exited == nil {
			continue
		}
		select {
		case <-g.exited:
			continue
		default:
		}
		g.killed = true
		g.done = true
		select {
		case g.wake <- struct{}{}:
		default:
		}
		<-g.exited
	}
	s.abort = nil
}

// spawn starts fn as a new interpreted goroutine (runs when scheduled).
func (s *scheduler) spawn(run func()) {
	g := &gor{id: len(s.gs), wake: make(chan struct{}, 1), exited: make(chan struct{})}
	s.gs = append(s.gs, g)
	go func() {
		defer close(g.exited)
		<-g.wake
		if g.killed { // killed before start
			return
		}
		s.cur = g
		defer func() {
			r := recover()
			g.done = true
			if g.killed {
				return // killAll is waiting for us; it keeps the baton
			}
			if r != nil {
				if _, ok := r.(abortGoroutine); ok {
					return
				}
				// propagate to main
				s.abort = r
			}
			// pass baton on
			next := s.pick(g)
			for next == nil && s.abort == nil {
				fired := false
				func() {
					defer func() {
						if r := recover(); r != nil {
							s.abort = r
						}
					}()
					fired = fireEarliestTimer()
				}()
				if !fired {
					break
				}
				next = s.pick(g)
			}
			if s.abort != nil || next == nil {
				if next == nil && s.abort == nil {
					s.abort = pathEnd{"blocked"}
				}
				next = s.gs[0]
			}
			s.cur = next
			next.wake <- struct{}{}
		}()
		run()
	}()
}

// yield lets other goroutines run (used at path end to drain? not needed)

// ---- channel ops

type pendingSend struct {
	v     value
	taken bool
}

func chSend(ch *schan, v value) {
	if ch == nil {
		SCH.block(func() bool { return false })
	}
	if ch.cap > 0 {
		SCH.block(func() bool { return ch.closed || len(ch.buf) < ch.cap })
		if ch.closed {
			panic(targetPanic{"send on closed channel"})
		}
		ch.buf = append(ch.buf, v)
		return
	}
	if ch.closed {
		panic(targetPanic{"send on closed channel"})
	}
	p := &pendingSend{v: v}
	ch.sendq = append(ch.sendq, p)
	SCH.block(func() bool { return p.taken || ch.closed })
	if !p.taken {
		panic(targetPanic{"send on closed channel"})
	}
}

func chRecvReady(ch *schan) bool {
	return ch != nil && (len(ch.buf) > 0 || len(ch.sendq) > 0 || ch.closed)
}

func chTake(ch *schan) (value, bool) {
	if len(ch.buf) > 0 {
		v := ch.buf[0]
		ch.buf = ch.buf[1:]
		return v, true
	}
	if len(ch.sendq) > 0 {
		p := ch.sendq[0]
		ch.sendq = ch.sendq[1:]
		p.taken = true
		return p.v, true
	}
	if ch.closed {
		return nil, false
	}
	panic("chTake: not ready")
}

func chRecv(ch *schan) (value, bool) {
	if ch == nil {
		SCH.block(func() bool { return false })
	}
	if !chRecvReady(ch) {
		ch.recvWait++
		SCH.block(func() bool { return chRecvReady(ch) })
		ch.recvWait--
	}
	return chTake(ch)
}

func chSendReady(ch *schan) bool {
	if ch == nil {
		return false
	}
	if ch.closed {
		return true
	}
	if ch.cap > 0 {
		return len(ch.buf) < ch.cap
	}
	return ch.recvWait > len(ch.sendq)
}

func chClose(ch *schan) {
	if ch.closed {
		panic(targetPanic{"close of closed channel"})
	}
	ch.closed = true
}

// choose is an n-way decision.
func (e *Explorer) choose(n int) int {
	if n <= 1 {
		return 0
	}
	var br int
	if e.pos < len(e.prefix) {
		br = e.prefix[e.pos]
	} else {
		br = 0
		for k := n - 1; k >= 1; k-- {
			alt := append(append([]int{}, e.taken...), k)
			e.queue = append(e.queue, alt)
		}
	}
	e.pos++
	e.taken = append(e.taken, br)
	if Trace {
		fmt.Printf("     choose#%d=%d of %d\n", e.pos, br, n)
	}
	return br
}

// switchAwayOnce lets every other runnable goroutine run until it blocks, then resumes me.
func (s *scheduler) switchAwayOnce(me *gor) {
	next := s.pick(me)
	if next == nil || next == me {
		return
	}
	me.ready = func() bool { return true }
	s.cur = next
	next.wake <- struct{}{}
	<-me.wake
	if me.killed {
		panic(abortGoroutine{})
	}
	s.cur = me
	me.ready = nil
	if s.abort != nil {
		if me.main {
			a := s.abort
			s.abort = nil
			s.killAll()
			panic(a)
		}
		panic(abortGoroutine{})
	}
}
