package interp

import (
	"go/token"
	"go/types"
)

type hashable interface {
	hash(t types.Type) int
	eq(t types.Type, x interface{}) bool
}

type entry struct {
	key   value
	value value
}

// insertion-ordered, symbolic-key aware map
type hashmap struct {
	keyType types.Type
	ents    []*entry
}

func makeMap(kt types.Type, reserve int64) value {
	return &hashmap{keyType: kt}
}

func (m *hashmap) keyEq(a, b value) bool {
	_, sa := a.(symstr)
	_, sb := b.(symstr)
	if sa || sb {
		// string keys with symbolic bytes (e.g. hex of a symbolic root): alias case-split
		return decideV(symStrBinop(token.EQL, a, b))
	}
	if hasSym(a) || hasSym(b) {
		return EX.decide(symEq(m.keyType, a, b))
	}
	return equals(m.keyType, a, b)
}

func (m *hashmap) find(k value) int {
	if m == nil {
		return -1
	}
	for i, e := range m.ents {
		if m.keyEq(k, e.key) {
			return i
		}
	}
	return -1
}

func (m *hashmap) delete(k value) {
	if i := m.find(k); i >= 0 {
		m.ents = append(m.ents[:i:i], m.ents[i+1:]...)
	}
}

func (m *hashmap) lookup2(k value) (value, bool) {
	if i := m.find(k); i >= 0 {
		return m.ents[i].value, true
	}
	return nil, false
}

func (m *hashmap) lookup(k value) value {
	v, _ := m.lookup2(k)
	return v
}

func (m *hashmap) insert(k value, v value) {
	if i := m.find(k); i >= 0 {
		m.ents[i].value = v
		return
	}
	m.ents = append(m.ents, &entry{key: k, value: v})
}

func (m *hashmap) len() int {
	if m != nil {
		return len(m.ents)
	}
	return 0
}

type omapIter struct {
	ents []*entry
	i    int
}

func (m *hashmap) newIter() iter {
	it := &omapIter{}
	if m != nil {
		it.ents = append(it.ents, m.ents...)
	}
	return it
}

func (it *omapIter) next() tuple {
	if it.i >= len(it.ents) {
		return []value{false, nil, nil}
	}
	e := it.ents[it.i]
	it.i++
	return []value{true, e.key, e.value}
}
