package interp

// Schedule-exploring mode (opt-in per harness function through the parameter SCHED_PREEMPT = k):
//   - sync.Mutex / sync.RWMutex have real lock state: Lock blocks while the lock is held;
//   - every Lock (before acquiring), every Unlock (after releasing) and every zzYield is a scheduling point:
//     the engine decides - as an explored decision, like any branch - whether the running goroutine continues
//     or any other runnable goroutine takes over; at most k such preemptive switches per path (context bound);
//   - when the running goroutine blocks or ends, which runnable goroutine continues is an explored decision too
//     (not counted against k).
// Bounds: interleavings at synchronisation operations and explicit yield points with <= k preemptions;
// interleavings inside lock-free code between two scheduling points are not explored.

const (
	mLock = iota
	mUnlock
	mRLock
	mRUnlock
)

type mstate struct {
	writer  bool
	readers int
}

var (
	SchedNondet bool
	PreemptMax  int
	preemptLeft int
	mutexTab    map[*value]*mstate
)

func schedReset() {
	preemptLeft = PreemptMax
	mutexTab = map[*value]*mstate{}
}

func mutexOp(p *value, op int) {
	if !SchedNondet {
		return
	}
	m := mutexTab[p]
	if m == nil {
		m = &mstate{}
		mutexTab[p] = m
	}
	switch op {
	case mLock:
		SCH.preempt()
		SCH.block(func() bool { return !m.writer && m.readers == 0 })
		m.writer = true
	case mUnlock:
		if !m.writer {
			panic(targetPanic{"sync: unlock of unlocked mutex"})
		}
		m.writer = false
		SCH.preempt()
	case mRLock:
		SCH.preempt()
		SCH.block(func() bool { return !m.writer })
		m.readers++
	case mRUnlock:
		if m.readers <= 0 {
			panic(targetPanic{"sync: RUnlock of unlocked RWMutex"})
		}
		m.readers--
		SCH.preempt()
	}
}

// runnableOthers lists the goroutines other than me that could run now.
func (s *scheduler) runnableOthers(me *gor) []*gor {
	var cands []*gor
	for _, g := range s.gs {
		if g == me || g.done {
			continue
		}
		if g.ready == nil || g.ready() {
			cands = append(cands, g)
		}
	}
	return cands
}

// preempt is a scheduling point of the schedule-exploring mode.
func (s *scheduler) preempt() {
	if !SchedNondet || preemptLeft <= 0 {
		return
	}
	me := s.cur
	others := s.runnableOthers(me)
	if len(others) == 0 {
		return
	}
	k := EX.choose(len(others) + 1)
	if k == 0 {
		return
	}
	preemptLeft--
	s.handTo(me, others[k-1])
}

// handTo passes the baton to next; me stays runnable and continues when it is picked again.
func (s *scheduler) handTo(me, next *gor) {
	me.ready = func() bool { return true }
	s.cur = next
	next.wake <- struct{}{}
	<-me.wake
	if me.killed {
		panic(abortGoroutine{})
	}
	s.cur = me
	me.ready = nil
	if s.abort != nil {
		if me.main {
			a := s.abort
			s.abort = nil
			s.killAll()
			panic(a)
		}
		panic(abortGoroutine{})
	}
}
