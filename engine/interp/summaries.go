package interp

import (
	"go/types"
	"strings"

	"golang.org/x/tools/go/ssa"
)

var sideMaps = map[*value]*hashmap{}

var curSummaryFn *ssa.Function

func frFn(fr *frame, name string) *ssa.Function { return curSummaryFn }


func zeroResults(fn *ssa.Function) value {
	res := fn.Signature.Results()
	switch res.Len() {
	case 0:
		return nil
	case 1:
		return zero(res.At(0).Type())
	}
	t := make(tuple, res.Len())
	for k := range t {
		t[k] = zero(res.At(k).Type())
	}
	return t
}

func sideMap(p *value, kt types.Type) *hashmap {
	m := sideMaps[p]
	if m == nil {
		m = &hashmap{keyType: kt}
		sideMaps[p] = m
	}
	return m
}

func summary(fr *frame, fn *ssa.Function, name string, args []value) (value, bool) {
	curSummaryFn = fn
	if v, ok := timeSummary(fr, name, args); ok {
		return v, true
	}
	if v, ok := blsSummary(fr, fn, name, args); ok {
		return v, true
	}
	if v, ok := jsonSummary(fr, name, args); ok {
		return v, true
	}
	if name == "fmt.Sprintf" || name == "fmt.Errorf" || name == "fmt.Sprint" {
		va := args[len(args)-1].([]value)
		anySym := false
		for _, x := range va {
			if hasSym(x) {
				anySym = true
			}
		}
		if anySym && Params["FMT_CONCRETIZE"] == 1 {
			// concretise-then-format: fork over the feasible values of every symbolic scalar operand
			for k, x := range va {
				if xi, ok := x.(iface); ok {
					if sx, ok := xi.v.(sym); ok {
						va[k] = iface{xi.t, EX.concretize(sx)}
					}
				}
			}
			anySym = false
			for _, x := range va {
				if hasSym(x) {
					anySym = true
				}
			}
		}
		if anySym {
			if name == "fmt.Errorf" {
				return callSSA(fr.i, fr, 0, fn, []value{"<symbolic-format>", []value(nil)}, nil), true
			}
			return "<symbolic-format>", true
		}
	}
	if name == "errors.Is" {
		err, _ := args[0].(iface)
		target, _ := args[1].(iface)
		for depth := 0; depth < 16; depth++ {
			if err.t == nil {
				return target.t == nil, true
			}
			if sameType(err.t, target.t) {
				if _, isPtr := err.v.(*value); isPtr || types.Comparable(err.t) {
					if equals(err.t, err.v, target.v) {
						return true, true
					}
				}
			}
			ms := fr.i.prog.MethodSets.MethodSet(err.t)
			if sel := ms.Lookup(nil, "Is"); sel != nil {
				if f := fr.i.prog.MethodValue(sel); f != nil {
					if r, ok := call(fr.i, fr, 0, f, []value{err.v, target}).(bool); ok && r {
						return true, true
					}
				}
			}
			sel := ms.Lookup(nil, "Unwrap")
			if sel == nil {
				return false, true
			}
			f := fr.i.prog.MethodValue(sel)
			r := call(fr.i, fr, 0, f, []value{err.v})
			next, ok := r.(iface)
			if !ok {
				return false, true
			}
			err = next
		}
		return false, true
	}
	if name == "errors.As" {
		err, _ := args[0].(iface)
		target, _ := args[1].(iface)
		pt, ok := target.t.(*types.Pointer)
		if !ok {
			panic(targetPanic{"errors: target must be a non-nil pointer"})
		}
		T := pt.Elem()
		cell := target.v.(*value)
		for depth := 0; depth < 16; depth++ {
			if err.t == nil {
				return false, true
			}
			if it, isI := T.Underlying().(*types.Interface); isI {
				if types.Implements(err.t, it) {
					*cell = err
					return true, true
				}
			} else if types.Identical(err.t, T) {
				store(T, cell, err.v)
				return true, true
			}
			ms := fr.i.prog.MethodSets.MethodSet(err.t)
			sel := ms.Lookup(nil, "Unwrap")
			if sel == nil {
				return false, true
			}
			f := fr.i.prog.MethodValue(sel)
			r := call(fr.i, fr, 0, f, []value{err.v})
			next, ok := r.(iface)
			if !ok {
				return false, true
			}
			err = next
		}
		return false, true
	}
	if name == "sort.Slice" {
		sl := args[0].(iface).v.([]value)
		less := args[1]
		lt := func(i, j int) bool {
			r := call(fr.i, fr, 0, less, []value{i, j})
			if sr, ok := r.(sym); ok {
				return EX.decide(sr.t)
			}
			return r.(bool)
		}
		for i := 1; i < len(sl); i++ {
			for j := i; j > 0 && lt(j, j-1); j-- {
				sl[j], sl[j-1] = sl[j-1], sl[j]
			}
		}
		return nil, true
	}
	switch {
	case strings.HasPrefix(name, "github.com/cornelk/hashmap.New["), strings.HasPrefix(name, "github.com/cornelk/hashmap.NewSized["):
		cell := zero(mustDeref(fn.Signature.Results().At(0).Type()))
		return &cell, true
	case strings.HasPrefix(name, "(*github.com/cornelk/hashmap.Map["):
		meth := name[strings.LastIndex(name, ").")+2:]
		if i := strings.Index(meth, "["); i >= 0 {
			meth = meth[:i]
		}
		recv := args[0].(*value)
		// key type from receiver's type args: Map[K,V]
		named := mustDeref(fn.Signature.Recv().Type()).(*types.Named)
		kt := named.TypeArgs().At(0)
		vt := named.TypeArgs().At(1)
		m := sideMap(recv, kt)
		switch meth {
		case "Get":
			if v, ok := m.lookup2(args[1]); ok {
				return tuple{v, true}, true
			}
			return tuple{zero(vt), false}, true
		case "Set":
			m.insert(args[1], args[2])
			return nil, true
		case "Del":
			_, ok := m.lookup2(args[1])
			m.delete(args[1])
			return ok, true
		case "Len":
			return m.len(), true
		case "Range":
			for _, e := range append([]*entry{}, m.ents...) {
				r := call(fr.i, fr, 0, args[1], []value{e.key, e.value})
				if b, ok := r.(bool); ok && !b {
					break
				}
			}
			return nil, true
		case "GetOrInsert":
			if v, ok := m.lookup2(args[1]); ok {
				return tuple{v, true}, true
			}
			m.insert(args[1], args[2])
			return tuple{args[2], false}, true
		}
		panic("hashmap summary: " + meth)
	case strings.HasPrefix(name, "(*sync/atomic.Value)."):
		meth := name[len("(*sync/atomic.Value)."):]
		recv := args[0].(*value)
		m := sideMap(recv, types.Typ[types.Int])
		switch meth {
		case "Load":
			if v, ok := m.lookup2(0); ok {
				return v, true
			}
			return iface{}, true
		case "Store":
			m.insert(0, args[1])
			return nil, true
		case "Swap":
			old, ok := m.lookup2(0)
			m.insert(0, args[1])
			if !ok {
				return iface{}, true
			}
			return old, true
		case "CompareAndSwap":
			old, ok := m.lookup2(0)
			if !ok {
				old = iface{}
			}
			if equals(types.NewInterfaceType(nil, nil), old, args[1]) {
				m.insert(0, args[2])
				return true, true
			}
			return false, true
		}
		panic("atomic.Value summary: " + meth)
	case strings.HasPrefix(name, "(*sync.Map)."):
		meth := name[len("(*sync.Map)."):]
		recv := args[0].(*value)
		m := sideMap(recv, types.NewInterfaceType(nil, nil))
		switch meth {
		case "Load":
			if v, ok := m.lookup2(args[1]); ok {
				return tuple{v, true}, true
			}
			return tuple{iface{}, false}, true
		case "Store":
			m.insert(args[1], args[2])
			return nil, true
		}
		panic("sync.Map summary: " + meth)
	}
	return nil, false
}
