package interp

// Contract-only model of herumi BLS (DESIGN 2.4). A signature is its 96 serialized bytes, a public key
// its 48 serialized bytes; both are kept in a box stored in the first leaf of the (cgo) struct value so
// that they survive every copy the code makes.
//
// Signature byte layout understood by the verifier model (what the harness-side signers produce):
//   b[0]      1 = well-formed valid signature, anything else = garbage / invalid
//   b[1..14]  ascending list of the key ids that signed (key id = first byte of the public key), 0-terminated
//   b[16..47] the 32-byte signing root the signature is over
// Verify(pks, root) holds iff b[0]==1, the key list equals the sorted ids of pks and b[16..47]==root.
// Threshold recovery: Recover over >= 1 shares yields a signature by key 0xFF ("validator key") that is
// valid iff every share used is valid, is by a distinct share key, and all are over the same root;
// the harness decides how many shares make a threshold (it passes exactly the shares the code selected).

import (
	"go/token"
	"go/types"
	"sort"
	"strings"

	"golang.org/x/tools/go/ssa"
)

type blsBox struct{ b []value }

const blsPkg = "github.com/herumi/bls-eth-go-binary/bls."

func firstLeaf(p *value) *value {
	for {
		switch v := (*p).(type) {
		case structure:
			if len(v) == 0 {
				return p
			}
			p = &v[0]
		case array:
			if len(v) == 0 {
				return p
			}
			p = &v[0]
		default:
			return p
		}
	}
}

func blsGet(p *value, n int) []value {
	if bx, ok := (*firstLeaf(p)).(blsBox); ok {
		return bx.b
	}
	z := make([]value, n)
	for i := range z {
		z[i] = byte(0)
	}
	return z
}

func blsSet(p *value, b []value) { *firstLeaf(p) = blsBox{append([]value{}, b...)} }

func mkError(fr *frame, msg string) value {
	f := fr.i.prog.ImportedPackage("errors").Func("New")
	return call(fr.i, fr, token.NoPos, f, []value{msg})
}

func byteEq(a, b value) value { return binop(token.EQL, types.Typ[types.Uint8], a, b) }

// sortedIDs returns the key ids of a []PublicKey value, ascending (ids are concrete in practice;
// symbolic ones are ordered by solver-decided comparisons).
func sortedIDs(pks []value) []value {
	ids := make([]value, len(pks))
	for i := range pks {
		pv := pks[i]
		ids[i] = blsGet(&pv, 48)[0]
	}
	sortVals(ids)
	return ids
}

func sortVals(ids []value) {
	lt := func(a, b value) bool {
		r := binop(token.LSS, types.Typ[types.Uint8], a, b)
		if sr, ok := r.(sym); ok {
			return EX.decide(sr.t)
		}
		return r.(bool)
	}
	allConc := true
	for _, x := range ids {
		if isSym(x) {
			allConc = false
		}
	}
	if allConc {
		sort.Slice(ids, func(i, j int) bool { return ids[i].(byte) < ids[j].(byte) })
		return
	}
	for i := 1; i < len(ids); i++ {
		for j := i; j > 0 && lt(ids[j], ids[j-1]); j-- {
			ids[j], ids[j-1] = ids[j-1], ids[j]
		}
	}
}

// sigList returns the key-id list of a signature (up to the 0 terminator; a symbolic entry forks).
func sigList(b []value) []value {
	var l []value
	for i := 1; i <= 14; i++ {
		z := byteEq(b[i], byte(0))
		isZero := false
		if sz, ok := z.(sym); ok {
			isZero = EX.decide(sz.t)
		} else {
			isZero = z.(bool)
		}
		if isZero {
			break
		}
		l = append(l, b[i])
	}
	return l
}

func blsVerify(sig []value, ids []value, root []value) value {
	if len(sig) != 96 || len(root) != 32 || len(ids) > 13 {
		return false
	}
	r := byteEq(sig[0], byte(1))
	for i, id := range ids {
		r = bAnd(r, byteEq(sig[1+i], id))
	}
	r = bAnd(r, byteEq(sig[1+len(ids)], byte(0)))
	for i := 0; i < 32; i++ {
		r = bAnd(r, byteEq(sig[16+i], root[i]))
	}
	return r
}

func blsSummary(fr *frame, fn *ssa.Function, name string, args []value) (value, bool) {
	if !strings.Contains(name, blsPkg) {
		return nil, false
	}
	meth := name[strings.LastIndex(name, ".")+1:]
	isSign := strings.HasPrefix(name, "(*"+blsPkg+"Sign).")
	isPK := strings.HasPrefix(name, "(*"+blsPkg+"PublicKey).")
	isID := strings.HasPrefix(name, "(*"+blsPkg+"ID).")
	switch {
	case isSign && meth == "Deserialize":
		buf := args[1].([]value)
		if len(buf) != 96 {
			return mkError(fr, "err blsSignatureDeserialize"), true
		}
		// 0xFF in the first byte models bytes that are not a valid curve point
		if decideV(byteEq(buf[0], byte(0xFF))) {
			return mkError(fr, "err blsSignatureDeserialize"), true
		}
		blsSet(args[0].(*value), buf)
		return iface{}, true
	case isSign && meth == "Serialize":
		return append([]value{}, blsGet(args[0].(*value), 96)...), true
	case isSign && meth == "FastAggregateVerify":
		pks := args[1].([]value)
		if len(pks) == 0 {
			return false, true
		}
		return blsVerify(blsGet(args[0].(*value), 96), sortedIDs(pks), args[2].([]value)), true
	case isSign && meth == "VerifyByte":
		pk := blsGet(args[1].(*value), 48)
		return blsVerify(blsGet(args[0].(*value), 96), []value{pk[0]}, args[2].([]value)), true
	case isSign && meth == "Add":
		a := blsGet(args[0].(*value), 96)
		b := blsGet(args[1].(*value), 96)
		out := make([]value, 96)
		for i := range out {
			out[i] = byte(0)
		}
		ok := bAnd(byteEq(a[0], byte(1)), byteEq(b[0], byte(1)))
		for i := 0; i < 32; i++ {
			ok = bAnd(ok, byteEq(a[16+i], b[16+i]))
			out[16+i] = a[16+i]
		}
		l := append(sigList(a), sigList(b)...)
		sortVals(l)
		if len(l) > 14 {
			l = l[:14]
			ok = false
		}
		for i, x := range l {
			out[1+i] = x
		}
		switch o := ok.(type) {
		case bool:
			if o {
				out[0] = byte(1)
			}
		case sym:
			it := mk("ite", 8, o.t, mkConst(8, 1), mkConst(8, 0))
			out[0] = sym{types.Uint8, it}
		}
		blsSet(args[0].(*value), out)
		return nil, true
	case isSign && meth == "Recover":
		sigs := args[1].([]value)
		ids := args[2].([]value)
		if len(sigs) == 0 || len(sigs) != len(ids) {
			return mkError(fr, "err blsSignatureRecover"), true
		}
		out := make([]value, 96)
		for i := range out {
			out[i] = byte(0)
		}
		var ok value = true
		var first []value
		seen := []value{}
		for k := range sigs {
			sv := sigs[k]
			b := blsGet(&sv, 96)
			ok = bAnd(ok, byteEq(b[0], byte(1)))
			// a share signature is by exactly one key, the share key whose id is the operator's bls.ID
			ok = bAnd(ok, byteEq(b[2], byte(0)))
			idv := ids[k]
			idb := blsGet(&idv, 8)
			ok = bAnd(ok, byteEq(b[1], idb[0]))
			for _, s := range seen {
				ok = bAnd(ok, mkNotV(byteEq(s, b[1])))
			}
			seen = append(seen, b[1])
			if first == nil {
				first = b
			} else {
				for i := 0; i < 32; i++ {
					ok = bAnd(ok, byteEq(first[16+i], b[16+i]))
				}
			}
		}
		for i := 0; i < 32; i++ {
			out[16+i] = first[16+i]
		}
		out[1] = byte(0xFF)
		switch o := ok.(type) {
		case bool:
			if o {
				out[0] = byte(1)
			}
		case sym:
			out[0] = sym{types.Uint8, mk("ite", 8, o.t, mkConst(8, 1), mkConst(8, 0))}
		}
		blsSet(args[0].(*value), out)
		return iface{}, true
	case isSign && (meth == "SerializeToHexStr" || meth == "GetHexString"):
		return "<bls-sig>", true
	case isPK && meth == "Deserialize":
		buf := args[1].([]value)
		if len(buf) != 48 {
			return mkError(fr, "err blsPublicKeyDeserialize"), true
		}
		blsSet(args[0].(*value), buf)
		return iface{}, true
	case isPK && meth == "Serialize":
		return append([]value{}, blsGet(args[0].(*value), 48)...), true
	case isPK && (meth == "SerializeToHexStr" || meth == "GetHexString"):
		b := blsGet(args[0].(*value), 48)
		const hexd = "0123456789abcdef"
		out := make([]byte, 0, 96)
		for _, x := range b {
			c, ok := x.(byte)
			if !ok {
				return "<bls-pk>", true
			}
			out = append(out, hexd[c>>4], hexd[c&15])
		}
		return string(out), true
	case strings.HasPrefix(name, "(*"+blsPkg+"SecretKey).") && meth == "GetPublicKey":
		// the public key of a secret key: carries the same identity byte
		sk := blsGet(args[0].(*value), 32)
		cell := zero(mustDeref(fn.Signature.Results().At(0).Type()))
		pkb := make([]value, 48)
		for i := range pkb {
			pkb[i] = byte(0)
		}
		pkb[0] = sk[0]
		p := &cell
		blsSet(p, pkb)
		return p, true
	case strings.HasPrefix(name, "(*"+blsPkg+"SecretKey).") && meth == "Deserialize":
		buf := args[1].([]value)
		if len(buf) != 32 {
			return mkError(fr, "err blsSecretKeyDeserialize"), true
		}
		blsSet(args[0].(*value), buf)
		return iface{}, true
	case strings.HasPrefix(name, "(*"+blsPkg+"SecretKey).") && meth == "Serialize":
		return append([]value{}, blsGet(args[0].(*value), 32)...), true
	case isPK && meth == "IsEqual":
		a := blsGet(args[0].(*value), 48)
		b := blsGet(args[1].(*value), 48)
		var r value = true
		for i := range a {
			r = bAnd(r, byteEq(a[i], b[i]))
		}
		return r, true
	case isID && meth == "SetDecString":
		s, _ := args[1].(string)
		n := 0
		for _, c := range s {
			if c < '0' || c > '9' {
				return mkError(fr, "err blsIDSetDecString"), true
			}
			n = n*10 + int(c-'0')
		}
		b := make([]value, 8)
		for i := range b {
			b[i] = byte(n >> (8 * i))
		}
		blsSet(args[0].(*value), b)
		return iface{}, true
	}
	return nil, false
}

func mkNotV(v value) value {
	if b, ok := v.(bool); ok {
		return !b
	}
	return sym{types.Bool, mkNot(v.(sym).t)}
}
