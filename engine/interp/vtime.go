package interp

// Virtual time (DESIGN 2.2 item 7): time.Now returns arbitrary non-decreasing instants; timers are engine
// objects that fire when a clock reading passes their deadline, or - when every goroutine is blocked - the
// earliest one fires and the clock jumps to (at least) its deadline. Which timer is earliest and whether a
// deadline has passed are solver-decided branches.

import (
	"go/token"
	"go/types"
	"math/big"

	"golang.org/x/tools/go/ssa"
)

type vtimer struct {
	deadline value // int64 nanoseconds since the unix epoch (possibly symbolic)
	ch       *schan
	fn       value // AfterFunc callback
	active   bool
	i        *interpreter
}

var (
	vtimers  []*vtimer
	vtimerOf map[*value]*vtimer
	vNowSec  value // last clock reading, seconds since the unix epoch (nil = never read)
)

func vtimeReset() {
	vtimers = nil
	vtimerOf = map[*value]*vtimer{}
	vNowSec = nil
	lastNow = nil
}

const (
	clockLo = 1_600_000_000
	clockHi = 1_700_000_000
)

func sconst(c int64) *Term { return &Term{Op: "const", W: 64, C: uint64(c), S: true} }

// clockRead produces a fresh clock reading >= the previous one and >= atLeastNs (if given), and fires
// every timer whose deadline is not after it.
func clockRead(atLeastNs value) value {
	var v value = EX.nondet("time.Now", types.Int64)
	if sv, ok := v.(sym); ok {
		varRange[sv.t.Name] = [2]*big.Int{big.NewInt(clockLo), big.NewInt(clockHi)}
		EX.pc = append(EX.pc, mkAnd(mk("bvsge", 0, sv.t, sconst(clockLo)), mk("bvsle", 0, sv.t, sconst(clockHi))))
	} else if c := v.(int64); c < clockLo || c > clockHi {
		panic(pathEnd{"infeasible"}) // concrete replay with a clock value outside the modelled range
	}
	if vNowSec != nil {
		ge := binop(token.GEQ, types.Typ[types.Int64], v, vNowSec)
		EX.assumeV(ge)
	}
	if atLeastNs != nil {
		ge := binop(token.GEQ, types.Typ[types.Int64], tMul(v, int64(1_000_000_000)), atLeastNs)
		EX.assumeV(ge)
	}
	vNowSec = v
	nowNs := tMul(v, int64(1_000_000_000))
	for _, t := range append([]*vtimer{}, vtimers...) {
		if !t.active {
			continue
		}
		due := binop(token.LEQ, types.Typ[types.Int64], t.deadline, nowNs)
		if decideV(due) {
			fireTimer(t, v)
		}
	}
	return v
}

func decideV(c value) bool {
	if b, ok := c.(bool); ok {
		return b
	}
	return EX.decide(c.(sym).t)
}

// assumeV adds c to the path condition (the path ends if it cannot hold).
func (e *Explorer) assumeV(c value) {
	if b, ok := c.(bool); ok {
		if !b {
			panic(pathEnd{"infeasible"})
		}
		return
	}
	t := c.(sym).t
	if e.mergeDepth == 0 {
		if ok, _ := e.feasible(t); !ok {
			panic(pathEnd{"infeasible"})
		}
	}
	e.pc = append(e.pc, t)
}

func fireTimer(t *vtimer, nowSec value) {
	t.active = false
	if t.fn != nil {
		fn, i := t.fn, t.i
		SCH.spawn(func() { call(i, nil, token.NoPos, fn, nil) })
		return
	}
	if t.ch != nil && len(t.ch.buf) < t.ch.cap {
		t.ch.buf = append(t.ch.buf, mkTime(int64(0), tAdd(nowSec, int64(unixToInternal)), (*value)(nil)))
	}
}

// fireEarliestTimer is called when no goroutine can run: the earliest active timer fires.
func fireEarliestTimer() bool {
	var cand *vtimer
	for _, t := range vtimers {
		if !t.active {
			continue
		}
		if cand == nil {
			cand = t
			continue
		}
		if decideV(binop(token.LSS, types.Typ[types.Int64], t.deadline, cand.deadline)) {
			cand = t
		}
	}
	if cand == nil {
		return false
	}
	clockRead(cand.deadline) // the new reading is >= the deadline, so cand (and anything else due) fires
	return true
}

func newVTimer(d value) *vtimer {
	now := vNowSec
	if now == nil {
		now = clockRead(nil)
	} else {
		now = clockRead(nil)
	}
	t := &vtimer{deadline: tAdd(tMul(now, int64(1_000_000_000)), d), active: true}
	vtimers = append(vtimers, t)
	return t
}

func vtimeSummary(fr *frame, fn *ssa.Function, name string, args []value) (value, bool) {
	switch name {
	case "time.NewTimer", "time.AfterFunc":
		t := newVTimer(args[0])
		tt := mustDeref(fn.Signature.Results().At(0).Type())
		cell := zero(tt)
		if name == "time.AfterFunc" {
			t.fn, t.i = args[1], fr.i
		} else {
			t.ch = &schan{cap: 1}
			cell.(structure)[0] = t.ch
		}
		p := &cell
		vtimerOf[p] = t
		return p, true
	case "time.After":
		t := newVTimer(args[0])
		t.ch = &schan{cap: 1}
		return t.ch, true
	case "(*time.Timer).Stop":
		t := vtimerOf[args[0].(*value)]
		if t == nil {
			panic("time: Stop called on uninitialized Timer")
		}
		was := t.active
		t.active = false
		return was, true
	case "(*time.Timer).Reset":
		t := vtimerOf[args[0].(*value)]
		if t == nil {
			panic("time: Reset called on uninitialized Timer")
		}
		was := t.active
		now := clockRead(nil)
		t.deadline = tAdd(tMul(now, int64(1_000_000_000)), args[1])
		t.active = true
		return was, true
	case "time.Sleep":
		t := newVTimer(args[0])
		t.ch = &schan{cap: 1}
		chRecv(t.ch)
		return nil, true
	}
	return nil, false
}
