package interp

// PROTOTYPE: symbolic scalars, decision-prefix exploration, z3 session.

import (
	"bufio"
	"fmt"
	"go/token"
	"go/types"
	"hash/fnv"
	"io"
	"os"
	"os/exec"
	"runtime"
	"sort"
	"strings"
	"time"
)

type Term struct {
	Op   string
	Args []*Term
	W    int // 0 = Bool
	C    uint64
	Name string
	Hi   int
	Lo   int
	str  string
	S      bool // signed Go kind (for the integer printer)
	ivc    ival
	ivDone bool
}

type sym struct {
	k types.BasicKind
	t *Term
}

func kindWidth(k types.BasicKind) int {
	switch k {
	case types.Bool, types.UntypedBool:
		return 0
	case types.Int8, types.Uint8:
		return 8
	case types.Int16, types.Uint16:
		return 16
	case types.Int32, types.Uint32:
		return 32
	}
	return 64
}
func kindSigned(k types.BasicKind) bool {
	switch k {
	case types.Int, types.Int8, types.Int16, types.Int32, types.Int64:
		return true
	}
	return false
}

func mkConst(w int, c uint64) *Term {
	if w < 64 && w > 0 {
		c &= (1 << uint(w)) - 1
	}
	return &Term{Op: "const", W: w, C: c}
}
func mkBool(b bool) *Term {
	if b {
		return &Term{Op: "true"}
	}
	return &Term{Op: "false"}
}
func mkVar(name string, w int) *Term { return &Term{Op: "var", Name: name, W: w} }
func mk(op string, w int, args ...*Term) *Term {
	return &Term{Op: op, W: w, Args: args}
}
func mkNot(t *Term) *Term {
	if t.Op == "true" {
		return mkBool(false)
	}
	if t.Op == "false" {
		return mkBool(true)
	}
	if t.Op == "not" {
		return t.Args[0]
	}
	return mk("not", 0, t)
}
func mkAnd(a, b *Term) *Term {
	if a.Op == "true" {
		return b
	}
	if b.Op == "true" {
		return a
	}
	if a.Op == "false" || b.Op == "false" {
		return mkBool(false)
	}
	return mk("and", 0, a, b)
}

func (t *Term) String() string {
	if t.str != "" {
		return t.str
	}
	if UseInt {
		t.str = t.IntString()
		return t.str
	}
	var s string
	switch t.Op {
	case "const":
		if t.W%4 == 0 {
			s = fmt.Sprintf("#x%0*x", t.W/4, t.C)
		} else {
			s = fmt.Sprintf("#b%0*b", t.W, t.C)
		}
	case "true", "false":
		s = t.Op
	case "var":
		s = t.Name
	case "extract":
		s = fmt.Sprintf("((_ extract %d %d) %s)", t.Hi, t.Lo, t.Args[0])
	case "conv":
		s = t.Args[0].String()
	case "zext":
		s = fmt.Sprintf("((_ zero_extend %d) %s)", t.Hi, t.Args[0])
	case "sext":
		s = fmt.Sprintf("((_ sign_extend %d) %s)", t.Hi, t.Args[0])
	default:
		var sb strings.Builder
		sb.WriteString("(" + t.Op)
		for _, a := range t.Args {
			sb.WriteString(" " + a.String())
		}
		sb.WriteString(")")
		s = sb.String()
	}
	t.str = s
	return s
}

var varSigned = map[string]bool{}

func (t *Term) vars(m map[string]int) {
	if t.Op == "var" {
		m[t.Name] = t.W
		if t.S {
			varSigned[t.Name] = true
		}
	}
	for _, a := range t.Args {
		a.vars(m)
	}
}

// ---- value <-> term

func basicKindOf(v value) (types.BasicKind, bool) {
	switch v.(type) {
	case bool:
		return types.Bool, true
	case int:
		return types.Int, true
	case int8:
		return types.Int8, true
	case int16:
		return types.Int16, true
	case int32:
		return types.Int32, true
	case int64:
		return types.Int64, true
	case uint:
		return types.Uint, true
	case uint8:
		return types.Uint8, true
	case uint16:
		return types.Uint16, true
	case uint32:
		return types.Uint32, true
	case uint64:
		return types.Uint64, true
	case uintptr:
		return types.Uintptr, true
	}
	return 0, false
}

func toTerm(v value) (*Term, types.BasicKind) {
	if s, ok := v.(sym); ok {
		return s.t, s.k
	}
	k, ok := basicKindOf(v)
	if !ok {
		panic(fmt.Sprintf("toTerm: %T", v))
	}
	if k == types.Bool {
		return mkBool(v.(bool)), k
	}
	if kindSigned(k) {
		c := mkConst(kindWidth(k), uint64(asInt64(v)))
		c.S = true
		return c, k
	}
	return mkConst(kindWidth(k), asUint64(v)), k
}

func fromConst(k types.BasicKind, c uint64) value {
	switch k {
	case types.Bool:
		return c != 0
	case types.Int:
		return int(c)
	case types.Int8:
		return int8(c)
	case types.Int16:
		return int16(c)
	case types.Int32:
		return int32(c)
	case types.Int64:
		return int64(c)
	case types.Uint:
		return uint(c)
	case types.Uint8:
		return uint8(c)
	case types.Uint16:
		return uint16(c)
	case types.Uint32:
		return uint32(c)
	case types.Uint64:
		return c
	case types.Uintptr:
		return uintptr(c)
	}
	panic("fromConst")
}

func isSym(v value) bool { _, ok := v.(sym); return ok }

func hasSym(v value) bool {
	switch v := v.(type) {
	case sym:
		return true
	case array:
		for _, e := range v {
			if hasSym(e) {
				return true
			}
		}
	case structure:
		for _, e := range v {
			if hasSym(e) {
				return true
			}
		}
	case iface:
		return hasSym(v.v)
	}
	return false
}

func symBinop(op token.Token, x, y value) value {
	r := symBinop0(op, x, y)
	if sr, ok := r.(sym); ok && sr.t.W > 0 {
		sr.t.S = kindSigned(sr.k)
	}
	return r
}

func symBinop0(op token.Token, x, y value) value {
	tx, kx := toTerm(x)
	ty, ky := toTerm(y)
	w := kindWidth(kx)
	sg := kindSigned(kx)
	// syntactically identical operands: decided without the solver
	if tx == ty || (tx.Op != "const" && ty.Op != "const" && tx.String() == ty.String()) {
		switch op {
		case token.EQL, token.LEQ, token.GEQ:
			return true
		case token.NEQ, token.LSS, token.GTR:
			return false
		}
	}
	if kx == types.Bool {
		switch op {
		case token.EQL:
			return sym{types.Bool, mk("=", 0, tx, ty)}
		case token.NEQ:
			return sym{types.Bool, mkNot(mk("=", 0, tx, ty))}
		case token.AND, token.LAND:
			return sym{types.Bool, mkAnd(tx, ty)}
		case token.OR, token.LOR:
			return sym{types.Bool, mk("or", 0, tx, ty)}
		}
		panic("symBinop bool " + op.String())
	}
	if op == token.SHL || op == token.SHR {
		wy := kindWidth(ky)
		if wy < w {
			ty = &Term{Op: "zext", W: w, Hi: w - wy, Args: []*Term{ty}}
		} else if wy > w {
			ty = &Term{Op: "extract", W: w, Hi: w - 1, Lo: 0, Args: []*Term{ty}}
		}
	}
	pick := func(s, u string) string {
		if sg {
			return s
		}
		return u
	}
	switch op {
	case token.ADD:
		return sym{kx, mk("bvadd", w, tx, ty)}
	case token.SUB:
		return sym{kx, mk("bvsub", w, tx, ty)}
	case token.MUL:
		return sym{kx, mk("bvmul", w, tx, ty)}
	case token.QUO:
		return sym{kx, mk(pick("bvsdiv", "bvudiv"), w, tx, ty)}
	case token.REM:
		return sym{kx, mk(pick("bvsrem", "bvurem"), w, tx, ty)}
	case token.AND:
		return sym{kx, mk("bvand", w, tx, ty)}
	case token.OR:
		return sym{kx, mk("bvor", w, tx, ty)}
	case token.XOR:
		return sym{kx, mk("bvxor", w, tx, ty)}
	case token.AND_NOT:
		return sym{kx, mk("bvand", w, tx, mk("bvnot", w, ty))}
	case token.SHL:
		return sym{kx, mk("bvshl", w, tx, ty)}
	case token.SHR:
		return sym{kx, mk(pick("bvashr", "bvlshr"), w, tx, ty)}
	case token.EQL:
		return sym{types.Bool, mk("=", 0, tx, ty)}
	case token.NEQ:
		return sym{types.Bool, mkNot(mk("=", 0, tx, ty))}
	case token.LSS:
		return sym{types.Bool, mk(pick("bvslt", "bvult"), 0, tx, ty)}
	case token.LEQ:
		return sym{types.Bool, mk(pick("bvsle", "bvule"), 0, tx, ty)}
	case token.GTR:
		return sym{types.Bool, mk(pick("bvsgt", "bvugt"), 0, tx, ty)}
	case token.GEQ:
		return sym{types.Bool, mk(pick("bvsge", "bvuge"), 0, tx, ty)}
	}
	panic("symBinop: " + op.String())
}

// symEq builds an equality term over possibly-aggregate values.
func symEq(t types.Type, x, y value) *Term {
	switch xv := x.(type) {
	case array:
		yv := y.(array)
		et := t.Underlying().(*types.Array).Elem()
		r := mkBool(true)
		for i := range xv {
			r = mkAnd(r, symEq(et, xv[i], yv[i]))
		}
		return r
	case structure:
		yv := y.(structure)
		st := t.Underlying().(*types.Struct)
		r := mkBool(true)
		for i := range xv {
			r = mkAnd(r, symEq(st.Field(i).Type(), xv[i], yv[i]))
		}
		return r
	case iface:
		yv := y.(iface)
		if !sameType(xv.t, yv.t) {
			return mkBool(false)
		}
		if xv.t == nil {
			return mkBool(true)
		}
		return symEq(xv.t, xv.v, yv.v)
	}
	if isSym(x) || isSym(y) {
		tx, _ := toTerm(x)
		ty, _ := toTerm(y)
		if tx == ty || (tx.Op != "const" && ty.Op != "const" && tx.String() == ty.String()) {
			return mkBool(true)
		}
		return mk("=", 0, tx, ty)
	}
	return mkBool(equals(t, x, y))
}

func symConv(dst types.Type, x sym) value {
	b, ok := dst.Underlying().(*types.Basic)
	if !ok {
		panic(fmt.Sprintf("symConv to %s", dst))
	}
	dk := b.Kind()
	if dk == types.Bool {
		return x
	}
	if dk == types.String && kindWidth(x.k) == 8 {
		// string(byte): the UTF-8 encoding of the code point (one byte below 0x80, two bytes otherwise)
		lim := mkConst(8, 0x80)
		if EX.decide(mk("bvult", 0, x.t, lim)) {
			return symstr{x}
		}
		hi := mk("bvor", 8, mkConst(8, 0xC0), mk("bvlshr", 8, x.t, mkConst(8, 6)))
		lo := mk("bvor", 8, mkConst(8, 0x80), mk("bvand", 8, x.t, mkConst(8, 0x3F)))
		return symstr{sym{types.Uint8, hi}, sym{types.Uint8, lo}}
	}
	if b.Info()&types.IsFloat != 0 {
		// PROTOTYPE: floats only feed log strings here; real engine uses a poisoned opaque value
		if dk == types.Float32 {
			return float32(0)
		}
		return float64(0)
	}
	if b.Info()&types.IsInteger == 0 {
		panic(fmt.Sprintf("symConv to %s", dst))
	}
	sw, dw := kindWidth(x.k), kindWidth(dk)
	t := x.t
	switch {
	case dw < sw:
		t = &Term{Op: "extract", W: dw, Hi: dw - 1, Lo: 0, Args: []*Term{t}}
	case dw > sw:
		if kindSigned(x.k) {
			t = &Term{Op: "sext", W: dw, Hi: dw - sw, Args: []*Term{t}}
		} else {
			t = &Term{Op: "zext", W: dw, Hi: dw - sw, Args: []*Term{t}}
		}
	}
	if t == x.t && kindSigned(dk) != kindSigned(x.k) {
		t = &Term{Op: "conv", W: dw, Args: []*Term{t}}
	}
	if t != x.t {
		t.S = kindSigned(dk)
	}
	return sym{dk, t}
}

// ---------------- exploration

type Violation struct {
	Label string            `json:"label"`
	Model map[string]uint64 `json:"model"`
	Path  []int             `json:"path"`
	PC    []string          `json:"pc,omitempty"`
}

// DumpPC makes every violation carry its path condition (debugging).
var DumpPC = os.Getenv("GOSYM_DUMP_PC") != ""

func (e *Explorer) pcStrings() []string {
	if !DumpPC {
		return nil
	}
	var r []string
	for _, t := range e.pc {
		s := t.String()
		if len(s) > 300 {
			s = s[:300] + "..."
		}
		r = append(r, s)
	}
	return r
}

// Sample is one completed path, written to the evidence so that a reader sees what was explored.
type Sample struct {
	Decisions int               `json:"decisions"`
	Asserts   []string          `json:"asserts"`
	Reached   []string          `json:"reached"`
	Model     map[string]uint64 `json:"model"`
	End       string            `json:"end"`
}

type Explorer struct {
	Z         *Solver
	prefix    []int
	pos       int
	taken     []int
	pc        []*Term
	queue     [][]int
	nondetN   map[string]int
	Paths     int
	Queries   int
	Viol      []Violation
	Witness   map[string]int
	abortPath bool
	mergeDepth int
	Merges    int
	Inconcl   map[string]int
	Samples   []Sample
	Truncated bool
	executed  map[string]bool
	stubs     map[string]bool
	deadline  time.Time
	curAsserts []string
	Nontrivial int // paths that reached at least one assertion
	qcache     map[string]qres
	CacheHits  int
	InitWall   time.Duration
	reached    bool
	curReach   []string
}

func (e *Explorer) ExecutedList() []string { return sortedKeys(e.executed) }
func (e *Explorer) StubList() []string     { return sortedKeys(e.stubs) }
func sortedKeys(m map[string]bool) []string {
	r := make([]string, 0, len(m))
	for k := range m {
		r = append(r, k)
	}
	sort.Strings(r)
	return r
}

// normalEnd tells whether a pathEnd reason is an ordinary way for a path to stop.
func normalEnd(why string) bool {
	switch why {
	case "infeasible", "assume false", "assume infeasible", "assert failed", "assert always fails", "blocked", "done":
		return true
	}
	return false
}

// mergeCall explores all paths of a pure call and merges scalar results into an ite term.
// Inside a merge no solver is consulted at branches (both outcomes of a non-constant condition are
// followed; the path condition becomes the ite guard, so an infeasible combination is harmless);
// only a path that ends in a panic is checked for feasibility. Merges nest.
func (e *Explorer) mergeCall(do func() value) value {
	e.Merges++
	sPrefix, sPos, sTaken, sQueue, sPC, sDepth := e.prefix, e.pos, e.taken, e.queue, e.pc, e.mergeDepth
	e.mergeDepth++
	defer func() {
		e.prefix, e.pos, e.taken, e.queue, e.pc, e.mergeDepth = sPrefix, sPos, sTaken, sQueue, sPC, sDepth
	}()
	type res struct {
		cond *Term
		v    value
	}
	var results []res
	e.queue = [][]int{nil}
	npaths := 0
	for len(e.queue) > 0 {
		p := e.queue[len(e.queue)-1]
		e.queue = e.queue[:len(e.queue)-1]
		e.prefix, e.pos, e.taken = p, 0, nil
		e.pc = append([]*Term{}, sPC...)
		npaths++
		if npaths > 20000 {
			panic(pathEnd{"merge-call: more than 20000 callee paths"})
		}
		var v value
		func() {
			defer func() {
				if r := recover(); r != nil {
					if pe, ok := r.(pathEnd); ok && pe.why == "infeasible" {
						v = pathEnd{}
						return
					}
					if _, ok := r.(pathEnd); !ok {
						// a panic on a callee path: real only if the path is feasible
						d := e.mergeDepth
						e.mergeDepth = 0
						okp, _ := e.feasible(mkBool(true))
						e.mergeDepth = d
						if !okp {
							v = pathEnd{}
							return
						}
					}
					panic(r)
				}
			}()
			v = do()
		}()
		if _, dead := v.(pathEnd); dead {
			continue
		}
		cond := mkBool(true)
		for _, t := range e.pc[len(sPC):] {
			cond = mkAnd(cond, t)
		}
		results = append(results, res{cond, v})
	}
	if len(results) == 0 {
		panic(pathEnd{"infeasible"})
	}
	// merge
	out := results[len(results)-1].v
	for i := len(results) - 2; i >= 0; i-- {
		out = mergeVal(results[i].cond, results[i].v, out)
	}
	return out
}

func mergeVal(c *Term, a, b value) value {
	if ta, ok := a.(tuple); ok {
		tb := b.(tuple)
		r := make(tuple, len(ta))
		for i := range ta {
			r[i] = mergeVal(c, ta[i], tb[i])
		}
		return r
	}
	if !isSym(a) && !isSym(b) {
		if _, ok := basicKindOf(a); !ok {
			panic(fmt.Sprintf("mergeVal: non-scalar %T", a))
		}
		if a == b {
			return a
		}
	}
	ta, k := toTerm(a)
	tb, _ := toTerm(b)
	it := mk("ite", kindWidth(k), c, ta, tb)
	it.S = kindSigned(k)
	return sym{k, it}
}

var EX *Explorer

type pathEnd struct{ why string }

func (e *Explorer) reset(prefix []int) {
	e.prefix = prefix
	e.pos = 0
	e.taken = nil
	e.pc = nil
	e.nondetN = map[string]int{}
	e.curAsserts = nil
	e.reached = false
	e.curReach = nil
}

type qres struct {
	ok    bool
	model map[string]uint64
}

func (e *Explorer) qkey(extra *Term, wantModel bool) string {
	h := fnv.New128a()
	for _, t := range e.pc {
		io.WriteString(h, t.String())
		h.Write([]byte{0})
	}
	io.WriteString(h, "|")
	io.WriteString(h, extra.String())
	if wantModel {
		h.Write([]byte{1})
	}
	return string(h.Sum(nil))
}

func (e *Explorer) feasible(extra *Term) (bool, map[string]uint64) {
	k := e.qkey(extra, false)
	if r, ok := e.qcache[k]; ok {
		e.CacheHits++
		return r.ok, nil
	}
	e.Queries++
	ok, _ := e.Z.CheckInc(e.pc, extra, false)
	e.qcache[k] = qres{ok: ok}
	return ok, nil
}

func (e *Explorer) feasibleModel(extra *Term) (bool, map[string]uint64) {
	k := e.qkey(extra, true)
	if r, ok := e.qcache[k]; ok {
		e.CacheHits++
		return r.ok, r.model
	}
	e.Queries++
	ok, m := e.Z.CheckInc(e.pc, extra, true)
	e.qcache[k] = qres{ok, m}
	return ok, m
}

// decide returns the branch taken for boolean term c.
func (e *Explorer) decide(c *Term) bool {
	if c.Op == "true" {
		return true
	}
	if c.Op == "false" {
		return false
	}
	var br int
	if e.pos < len(e.prefix) {
		br = e.prefix[e.pos]
	} else {
		okT, okF := true, true
		if e.mergeDepth == 0 {
			okT, _ = e.feasible(c)
			if okT {
				okF, _ = e.feasible(mkNot(c))
			}
		}
		switch {
		case okT && okF:
			br = 1
			alt := append(append([]int{}, e.taken...), 0)
			e.queue = append(e.queue, alt)
		case okT:
			br = 1
		case okF:
			br = 0
		default:
			panic(pathEnd{"infeasible"})
		}
	}
	e.pos++
	e.taken = append(e.taken, br)
	if Trace {
		cs := c.String()
		if len(cs) > 160 {
			cs = cs[:160]
		}
		fmt.Printf("     decide#%d=%d %s\n", e.pos, br, cs)
	}
	if br == 1 {
		e.pc = append(e.pc, c)
		return true
	}
	e.pc = append(e.pc, mkNot(c))
	return false
}

// concretize picks a concrete value for x (forking over all feasible values).
func (e *Explorer) concretize(x sym) value {
	for {
		k := e.qkey(x.t, false) + "#eval"
		r, hit := e.qcache[k]
		if !hit {
			ok, _ := e.feasible(mkBool(true))
			if ok {
				e.Queries++
				r = qres{ok: true, model: map[string]uint64{"v": e.Z.EvalInc(e.pc, x.t)}}
			} else {
				r = qres{ok: false}
			}
			e.qcache[k] = r
		} else {
			e.CacheHits++
		}
		if !r.ok {
			panic(pathEnd{"infeasible"})
		}
		v := r.model["v"]
		c := mkConst(kindWidth(x.k), v)
		c.S = kindSigned(x.k)
		if e.decide(mk("=", 0, x.t, c)) {
			return fromConst(x.k, v)
		}
	}
}

// StartPrefix, when non-nil, makes the exploration start from this decision prefix (debugging).
var StartPrefix []int

func (e *Explorer) Run(runOnce func()) {
	e.queue = [][]int{StartPrefix}
	e.Witness = map[string]int{}
	e.Inconcl = map[string]int{}
	e.executed = map[string]bool{}
	e.stubs = map[string]bool{}
	for len(e.queue) > 0 {
		p := e.queue[len(e.queue)-1]
		e.queue = e.queue[:len(e.queue)-1]
		e.reset(p)
		e.Paths++
		if Trace && (e.Paths%200 == 0 || e.Paths < 20) {
			fmt.Printf("  .. path %d queue=%d queries=%d prefixlen=%d\n", e.Paths, len(e.queue), e.Queries, len(p))
		}
		if (MaxPaths > 0 && e.Paths > MaxPaths) || (!e.deadline.IsZero() && time.Now().After(e.deadline)) {
			e.Truncated = true
			e.Paths--
			return
		}
		end := "done"
		func() {
			defer func() {
				if r := recover(); r != nil {
					if SCH != nil {
						SCH.killAll()
					}
					switch x := r.(type) {
					case pathEnd:
						end = x.why
						if !normalEnd(x.why) {
							e.Inconcl[x.why]++
						}
						e.Witness["end:"+x.why]++
						return
					case targetPanic:
						end = "panic"
						e.report("panic:" + toString(x.v))
						return
					case runtime.Error:
						end = "panic"
						msg := x.Error()
						if _, isTA := r.(*runtime.TypeAssertionError); isTA {
							// the interpreter itself tripped over a value it does not model
							e.Inconcl["engine:"+msg+" @"+lastFn]++
							return
						}
						e.report("runtime-panic:" + msg)
						return
					case string:
						end = "engine"
						e.Inconcl["engine:"+firstLine(x)+" @"+lastFn]++
						return
					default:
						end = "engine"
						e.Inconcl["engine:"+firstLine(fmt.Sprint(r))+" @"+lastFn]++
						return
					}
				}
			}()
			runOnce()
			if SCH != nil {
				SCH.killAll()
			}
		}()
		if len(e.curAsserts) > 0 || e.reached {
			e.Nontrivial++
		}
		if (len(e.Samples) < 4 || (len(e.Samples) < 16 && e.Paths%211 == 0)) && (end == "done") && (len(e.curAsserts) > 0 || e.reached) {
			if ok, model := e.feasibleModel(mkBool(true)); ok {
				e.Samples = append(e.Samples, Sample{Decisions: len(e.taken), Asserts: e.curAsserts, Reached: e.curReach, Model: model, End: end})
			}
		}
	}
}

func firstLine(s string) string {
	if i := strings.IndexByte(s, '\n'); i >= 0 {
		s = s[:i]
	}
	if len(s) > 200 {
		s = s[:200]
	}
	return s
}

var lastFn string

func (e *Explorer) report(label string) {
	ok, model := e.feasibleModel(mkBool(true))
	if !ok {
		return
	}
	e.Viol = append(e.Viol, Violation{Label: label, Model: model, Path: append([]int{}, e.taken...)})
}

func (e *Explorer) nondet(name string, k types.BasicKind) value {
	n := e.nondetN[name]
	e.nondetN[name] = n + 1
	full := fmt.Sprintf("%s!%d", name, n)
	if Fixed != nil {
		return fromConst(k, Fixed[full])
	}
	if k == types.Bool {
		return sym{k, mkVar(full, 0)}
	}
	v := mkVar(full, kindWidth(k))
	v.S = kindSigned(k)
	return sym{k, v}
}

func (e *Explorer) assume(c value) {
	if b, ok := c.(bool); ok {
		if !b {
			panic(pathEnd{"assume false"})
		}
		return
	}
	t := c.(sym).t
	ok, _ := e.feasible(t)
	if !ok {
		panic(pathEnd{"assume infeasible"})
	}
	e.pc = append(e.pc, t)
}

func (e *Explorer) assert(c value, label string) {
	e.Witness[label]++
	e.curAsserts = append(e.curAsserts, label)
	if b, ok := c.(bool); ok {
		if !b {
			e.report("assert:" + label)
			panic(pathEnd{"assert failed"})
		}
		return
	}
	t := c.(sym).t
	ok, model := e.feasibleModel(mkNot(t))
	if ok {
		e.Viol = append(e.Viol, Violation{Label: "assert:" + label, Model: model, Path: append([]int{}, e.taken...), PC: e.pcStrings()})
	}
	if !ok {
		return // the assertion is implied by the path condition: nothing to add, nothing more to ask
	}
	// continue under the assertion
	if ok2, _ := e.feasible(t); !ok2 {
		panic(pathEnd{"assert always fails"})
	}
	e.pc = append(e.pc, t)
}

// ---------------- solver

type Solver struct {
	cmd      *exec.Cmd
	in       io.WriteCloser
	out      *bufio.Reader
	stack    []string        // asserted pc terms (as strings), one push level each
	declared map[string]bool
	NChecks  int
	Wall     time.Duration
	Unknown  int
}

func (s *Solver) Close() {
	s.in.Close()
	s.cmd.Process.Kill()
	s.cmd.Wait()
}

func NewSolver() *Solver {
	bin := os.Getenv("GOSYM_SOLVER")
	if bin == "" {
		bin = "z3-new" // z3 5.1.0: decides the integer time-arithmetic queries z3 4.8.12 times out on
		if _, err := exec.LookPath(bin); err != nil {
			bin = "z3"
		}
	}
	cmd := exec.Command(bin, "-in")
	in, _ := cmd.StdinPipe()
	outp, _ := cmd.StdoutPipe()
	if err := cmd.Start(); err != nil {
		panic(err)
	}
	s := &Solver{cmd: cmd, in: in, out: bufio.NewReader(outp), declared: map[string]bool{}}
	to := os.Getenv("GOSYM_QUERY_TIMEOUT_MS")
	if to == "" {
		to = "30000"
	}
	io.WriteString(s.in, "(set-option :global-declarations true)\n(set-option :timeout "+to+")\n")
	return s
}

// sync makes the solver's assertion stack equal to pc; returns script text to send.
func (s *Solver) sync(pc []*Term, sb *strings.Builder) {
	n := 0
	for n < len(pc) && n < len(s.stack) && s.stack[n] == pc[n].String() {
		n++
	}
	if k := len(s.stack) - n; k > 0 {
		fmt.Fprintf(sb, "(pop %d)\n", k)
		s.stack = s.stack[:n]
	}
	for _, t := range pc[n:] {
		s.declare(t, sb)
		fmt.Fprintf(sb, "(push)\n(assert %s)\n", ranged(t))
		s.stack = append(s.stack, t.String())
	}
}

// ranged returns the SMT text of t, conjoined with range facts of its variables in Int mode.
func ranged(t *Term) string {
	if !UseInt {
		return t.String()
	}
	vars := map[string]int{}
	t.vars(vars)
	var sb strings.Builder
	sb.WriteString("(and")
	names := make([]string, 0, len(vars))
	for n := range vars {
		names = append(names, n)
	}
	sort.Strings(names)
	for _, n := range names {
		if w := vars[n]; w > 0 {
			lo, hi := typeRange(w, varSigned[n])
			if r, ok := varRange[n]; ok {
				lo, hi = r[0], r[1]
			}
			fmt.Fprintf(&sb, " (<= %s %s) (<= %s %s)", lit(lo), n, n, lit(hi))
		}
	}
	sb.WriteString(" " + t.String() + ")")
	return sb.String()
}

func (s *Solver) declare(t *Term, sb *strings.Builder) {
	vars := map[string]int{}
	t.vars(vars)
	for n, w := range vars {
		if s.declared[n] {
			continue
		}
		s.declared[n] = true
		if w == 0 {
			fmt.Fprintf(sb, "(declare-const %s Bool)\n", n)
		} else if UseInt {
			fmt.Fprintf(sb, "(declare-const %s Int)\n", n)
		} else {
			fmt.Fprintf(sb, "(declare-const %s (_ BitVec %d))\n", n, w)
		}
	}
}

// CheckInc checks pc ∧ extra incrementally.
func (s *Solver) flushDefs(pc []*Term, extra *Term) string {
	if !UseInt {
		return ""
	}
	// force printing (creates pending defs) and declare vars first
	var sb strings.Builder
	for _, t := range pc {
		_ = t.String()
		s.declare(t, &sb)
	}
	if extra != nil {
		_ = extra.String()
		s.declare(extra, &sb)
	}
	if len(pendingDefs) > 0 {
		// a shared definition may mention a variable that occurs in no asserted term yet
		for n, w := range seenVars {
			if !s.declared[n] && w > 0 {
				s.declared[n] = true
				fmt.Fprintf(&sb, "(declare-const %s Int)\n", n)
			}
		}
	}
	for _, d := range pendingDefs {
		sb.WriteString(d)
	}
	pendingDefs = nil
	return sb.String()
}

func (s *Solver) CheckInc(pc []*Term, extra *Term, wantModel bool) (bool, map[string]uint64) {
	var sb strings.Builder
	sb.WriteString(s.flushDefs(pc, extra))
	s.sync(pc, &sb)
	s.declare(extra, &sb)
	fmt.Fprintf(&sb, "(push)\n(assert %s)\n(check-sat)\n", ranged(extra))
	if SolverLog != nil {
		fmt.Fprintf(SolverLog, ">> %s", sb.String())
	}
	tq := time.Now()
	io.WriteString(s.in, sb.String())
	s.NChecks++
	r := s.readLine()
	dq := time.Since(tq)
	s.Wall += dq
	if QueryDumpDir != "" && (r == "sat" || r == "unsat") {
		queryDumpN++
		if queryDumpN%QueryDumpEvery == 0 && queryDumpN/QueryDumpEvery <= 400 {
			os.WriteFile(fmt.Sprintf("%s/q%06d.smt2", QueryDumpDir, queryDumpN), []byte("; expect "+r+"\n"+s.fullScript(pc, extra)), 0o644)
		}
	}
	if dq > time.Second && SlowLog != nil {
		fmt.Fprintf(SlowLog, ";; %v %s\n(reset)\n%s\n", dq, r, s.fullScript(pc, extra))
	}
	var model map[string]uint64
	ok := false
	switch r {
	case "sat":
		ok = true
		if wantModel {
			model = map[string]uint64{}
			names := make([]string, 0, len(s.declared))
			for n := range s.declared {
				names = append(names, n)
			}
			sort.Strings(names)
			if len(names) > 0 {
				io.WriteString(s.in, "(get-value ("+strings.Join(names, " ")+"))\n")
				parseValues(s.readSexpr(), model)
			}
		}
	case "unsat":
	default:
		// unknown / timeout / (error ...): never success, never a violation
		s.Unknown++
		io.WriteString(s.in, "(pop)\n")
		panic(pathEnd{"solver-inconclusive: " + firstLine(r)})
	}
	io.WriteString(s.in, "(pop)\n")
	return ok, model
}

func (s *Solver) EvalInc(pc []*Term, t *Term) uint64 {
	var sb strings.Builder
	sb.WriteString(s.flushDefs(pc, t))
	s.sync(pc, &sb)
	s.declare(t, &sb)
	fmt.Fprintf(&sb, "(check-sat)\n")
	if SolverLog != nil {
		fmt.Fprintf(SolverLog, ">> %s", sb.String())
	}
	io.WriteString(s.in, sb.String())
	if r := s.readLine(); r != "sat" {
		panic(pathEnd{"solver-inconclusive: eval " + firstLine(r)})
	}
	io.WriteString(s.in, "(get-value ("+t.String()+"))\n")
	txt := s.readSexpr()
	if UseInt {
		f := strings.Fields(strings.NewReplacer("(", " ", ")", " ").Replace(txt))
		v := parseLit(f[len(f)-1])
		if len(f) >= 2 && f[len(f)-2] == "-" {
			v = -v
		}
		return v
	}
	i := strings.LastIndex(txt, "#")
	return parseLit(txt[i:])
}

func (s *Solver) script(asserts []*Term) (string, []string) {
	vars := map[string]int{}
	for _, a := range asserts {
		a.vars(vars)
	}
	names := make([]string, 0, len(vars))
	for n := range vars {
		names = append(names, n)
	}
	sort.Strings(names)
	var sb strings.Builder
	sb.WriteString("(reset)\n")
	for _, n := range names {
		if vars[n] == 0 {
			fmt.Fprintf(&sb, "(declare-const %s Bool)\n", n)
		} else {
			fmt.Fprintf(&sb, "(declare-const %s (_ BitVec %d))\n", n, vars[n])
		}
	}
	for _, a := range asserts {
		fmt.Fprintf(&sb, "(assert %s)\n", a)
	}
	return sb.String(), names
}

var SolverLog io.Writer
var SlowLog io.Writer

// QueryDumpDir: every QueryDumpEvery-th decided query is written there as a stand-alone script (solver diff).
var QueryDumpDir string
var QueryDumpEvery = 97
var queryDumpN int

// fullScript renders a stand-alone SMT-LIB2 script for pc ∧ extra (debugging / solver diff).
func (s *Solver) fullScript(pc []*Term, extra *Term) string {
	var sb strings.Builder
	vars := map[string]int{}
	for _, t := range pc {
		t.vars(vars)
	}
	extra.vars(vars)
	names := make([]string, 0, len(vars))
	for n := range vars {
		names = append(names, n)
	}
	sort.Strings(names)
	for _, n := range names {
		if vars[n] == 0 {
			fmt.Fprintf(&sb, "(declare-const %s Bool)\n", n)
		} else if UseInt {
			fmt.Fprintf(&sb, "(declare-const %s Int)\n", n)
		} else {
			fmt.Fprintf(&sb, "(declare-const %s (_ BitVec %d))\n", n, vars[n])
		}
	}
	if UseInt {
		type kv struct{ k, v string }
		var defs []kv
		for e, n := range defNames {
			defs = append(defs, kv{n, e})
		}
		sort.Slice(defs, func(i, j int) bool {
			var a, b int
			fmt.Sscanf(defs[i].k, "t!%d", &a)
			fmt.Sscanf(defs[j].k, "t!%d", &b)
			return a < b
		})
		for _, d := range defs {
			fmt.Fprintf(&sb, "(define-fun %s () Int %s)\n", d.k, d.v)
		}
	}
	for _, t := range pc {
		fmt.Fprintf(&sb, "(assert %s)\n", ranged(t))
	}
	fmt.Fprintf(&sb, "(assert %s)\n(check-sat)\n", ranged(extra))
	return sb.String()
}

func (s *Solver) readLine() string {
	l, err := s.out.ReadString('\n')
	if err != nil {
		panic(err)
	}
	if SolverLog != nil {
		fmt.Fprintf(SolverLog, "<< %s", l)
	}
	return strings.TrimSpace(l)
}

func (s *Solver) Check(asserts []*Term) (bool, map[string]uint64) {
	sc, names := s.script(asserts)
	io.WriteString(s.in, sc+"(check-sat)\n")
	r := s.readLine()
	switch r {
	case "unsat":
		return false, nil
	case "sat":
		model := map[string]uint64{}
		if len(names) > 0 {
			io.WriteString(s.in, "(get-value ("+strings.Join(names, " ")+"))\n")
			// read balanced s-expr
			txt := s.readSexpr()
			parseValues(txt, model)
		}
		return true, model
	}
	panic("solver: " + r + "\n" + sc)
}

func (s *Solver) Eval(pc []*Term, t *Term) uint64 {
	sc, _ := s.script(append(append([]*Term{}, pc...), mk("=", 0, t, t)))
	io.WriteString(s.in, sc+"(check-sat)\n")
	if r := s.readLine(); r != "sat" {
		panic("eval: " + r)
	}
	io.WriteString(s.in, "(get-value ("+t.String()+"))\n")
	txt := s.readSexpr()
	if UseInt {
		f := strings.Fields(strings.NewReplacer("(", " ", ")", " ").Replace(txt))
		v := parseLit(f[len(f)-1])
		if len(f) >= 2 && f[len(f)-2] == "-" {
			v = -v
		}
		return v
	}
	i := strings.LastIndex(txt, "#")
	return parseLit(txt[i:])
}

func (s *Solver) readSexpr() string {
	depth := 0
	var sb strings.Builder
	for {
		l := s.readLine()
		sb.WriteString(l + " ")
		depth += strings.Count(l, "(") - strings.Count(l, ")")
		if depth <= 0 {
			return sb.String()
		}
	}
}

func parseLit(s string) uint64 {
	s = strings.TrimRight(strings.TrimSpace(s), ") ")
	var v uint64
	if strings.HasPrefix(s, "#x") {
		fmt.Sscanf(s[2:], "%x", &v)
	} else if strings.HasPrefix(s, "#b") {
		fmt.Sscanf(s[2:], "%b", &v)
	} else {
		fmt.Sscanf(s, "%d", &v)
	}
	return v
}

func parseValues(txt string, m map[string]uint64) {
	// ((a #x01) (b true))
	txt = strings.TrimSpace(txt)
	txt = strings.TrimPrefix(txt, "(")
	for _, part := range strings.Split(txt, ")") {
		part = strings.TrimSpace(part)
		part = strings.TrimPrefix(part, "(")
		f := strings.Fields(part)
		if len(f) != 2 {
			continue
		}
		switch f[1] {
		case "true":
			m[f[0]] = 1
		case "false":
			m[f[0]] = 0
		default:
			m[f[0]] = parseLit(f[1])
		}
	}
}

// Fixed, when non-nil, makes every nondet a constant (engine-concrete replay of a model).
var Fixed map[string]uint64

var MaxPaths = 0
var Trace = false
