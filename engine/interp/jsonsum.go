package interp

// Identity codec for encoding/json (DESIGN 2.4, codecs): Marshal returns a token bound to a deep copy of
// the value; Unmarshal of a token copies the value back; Unmarshal of any other buffer fails.
// Round-trip correctness of encoding/json itself (dependency code) is assumed, not checked. Fields that real
// JSON would drop (unexported / `json:"-"`) survive here: stated in the evidence of the checks that use it.

import (
	"go/types"
)

var jsonStore []iface

func deepCopyVal(v value) value {
	switch x := v.(type) {
	case structure:
		c := make(structure, len(x))
		for i := range x {
			c[i] = deepCopyVal(x[i])
		}
		return c
	case array:
		c := make(array, len(x))
		for i := range x {
			c[i] = deepCopyVal(x[i])
		}
		return c
	case []value:
		if x == nil {
			return x
		}
		c := make([]value, len(x))
		for i := range x {
			c[i] = deepCopyVal(x[i])
		}
		return c
	case *value:
		if x == nil {
			return x
		}
		c := deepCopyVal(*x)
		return &c
	case iface:
		return iface{x.t, deepCopyVal(x.v)}
	case *hashmap:
		if x == nil {
			return x
		}
		c := &hashmap{keyType: x.keyType}
		for _, e := range x.ents {
			c.ents = append(c.ents, &entry{key: deepCopyVal(e.key), value: deepCopyVal(e.value)})
		}
		return c
	case tuple:
		c := make(tuple, len(x))
		for i := range x {
			c[i] = deepCopyVal(x[i])
		}
		return c
	}
	return v
}

func jsonSummary(fr *frame, name string, args []value) (value, bool) {
	switch name {
	case "encoding/json.Marshal":
		v, _ := args[0].(iface)
		jsonStore = append(jsonStore, iface{v.t, deepCopyVal(v.v)})
		n := len(jsonStore)
		return tuple{[]value{byte(0x4A), byte(n), byte(n >> 8)}, iface{}}, true
	case "encoding/json.Unmarshal":
		data, _ := args[0].([]value)
		target, _ := args[1].(iface)
		bad := func(msg string) (value, bool) { return mkError(fr, "zz json: "+msg), true }
		if len(data) != 3 {
			return bad("not a token")
		}
		b0, ok0 := data[0].(byte)
		b1, ok1 := data[1].(byte)
		b2, ok2 := data[2].(byte)
		if !ok0 || !ok1 || !ok2 || b0 != 0x4A {
			return bad("not a token")
		}
		idx := int(b1) | int(b2)<<8
		if idx < 1 || idx > len(jsonStore) {
			return bad("unknown token")
		}
		src := jsonStore[idx-1]
		pt, ok := target.t.(*types.Pointer)
		if !ok {
			return bad("Unmarshal(non-pointer)")
		}
		cell, _ := target.v.(*value)
		if cell == nil {
			return bad("Unmarshal(nil)")
		}
		T := pt.Elem()
		switch {
		case types.Identical(src.t, T):
			store(T, cell, deepCopyVal(src.v))
		case isPtrTo(src.t, T):
			sp, _ := src.v.(*value)
			if sp == nil {
				return bad("nil value")
			}
			store(T, cell, deepCopyVal(*sp))
		case isPtrTo(T, src.t):
			// target is **S: allocate
			c := deepCopyVal(src.v)
			*cell = &c
		default:
			return bad("token holds " + src.t.String() + ", target is " + T.String())
		}
		return iface{}, true
	}
	return nil, false
}

func isPtrTo(p, elem types.Type) bool {
	pt, ok := p.Underlying().(*types.Pointer)
	return ok && types.Identical(pt.Elem(), elem)
}
