package interp

import (
	"go/token"
	"go/types"
)

// symstr is a string of concrete length whose bytes may be symbolic.
type symstr []value

func toSymStr(v value) symstr {
	switch v := v.(type) {
	case symstr:
		return v
	case string:
		r := make(symstr, len(v))
		for i := 0; i < len(v); i++ {
			r[i] = v[i]
		}
		return r
	}
	panic("toSymStr")
}

// normStr returns a Go string when every byte is concrete.
func normStr(s symstr) value {
	b := make([]byte, len(s))
	for i, x := range s {
		c, ok := x.(byte)
		if !ok {
			return s
		}
		b[i] = c
	}
	return string(b)
}

func symStrBinop(op token.Token, x, y value) value {
	a, b := toSymStr(x), toSymStr(y)
	switch op {
	case token.ADD:
		return normStr(append(append(symstr{}, a...), b...))
	case token.EQL, token.NEQ:
		var r value
		if len(a) != len(b) {
			r = false
		} else {
			e := mkBool(true)
			for i := range a {
				e = mkAnd(e, symEq(types.Typ[types.Uint8], a[i], b[i]))
			}
			if e.Op == "true" {
				r = true
			} else if e.Op == "false" {
				r = false
			} else {
				r = sym{types.Bool, e}
			}
		}
		if op == token.NEQ {
			if rb, ok := r.(bool); ok {
				return !rb
			}
			return sym{types.Bool, mkNot(r.(sym).t)}
		}
		return r
	}
	panic("symStrBinop: " + op.String())
}

// symSelect builds an ite-chain for elems[idx] (scalar elements, small containers); idx assumed in range
// after an explicit bounds decision.
func symSelect(elems []value, idx sym) (value, bool) {
	if len(elems) == 0 || len(elems) > 256 {
		return nil, false
	}
	k, ok := basicKindOf(elems[0])
	if !ok {
		if se, ok2 := elems[0].(sym); ok2 {
			k = se.k
		} else {
			return nil, false
		}
	}
	w := kindWidth(idx.k)
	inRange := mk(map[bool]string{true: "bvslt", false: "bvult"}[kindSigned(idx.k)], 0, idx.t, func() *Term { c := mkConst(w, uint64(len(elems))); c.S = kindSigned(idx.k); return c }())
	if kindSigned(idx.k) {
		z := mkConst(w, 0)
		z.S = true
		inRange = mkAnd(inRange, mk("bvsge", 0, idx.t, z))
	}
	if !EX.decide(inRange) {
		panic(targetPanic{"index out of range (symbolic index)"})
	}
	last, _ := toTerm(elems[len(elems)-1])
	acc := last
	for j := len(elems) - 2; j >= 0; j-- {
		ej, _ := toTerm(elems[j])
		cj := mkConst(w, uint64(j))
		cj.S = kindSigned(idx.k)
		acc = mk("ite", kindWidth(k), mk("=", 0, idx.t, cj), ej, acc)
		acc.S = kindSigned(k)
	}
	return sym{k, acc}, true
}
