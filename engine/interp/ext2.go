package interp

import (
	"go/token"
	"go/types"

	"golang.org/x/tools/go/ssa"
)

func init() {
	externals["(*sync.Once).Do"] = func(fr *frame, args []value) value {
		// args[0] = *Once (pointer to struct), args[1] = func
		o := args[0].(*value)
		st := (*o).(structure)
		// field 0: done atomic.Uint32 (struct{_ noCopy; v uint32}) ; use our own marker: replace field 1 (Mutex) ... simpler: use side table
		if onceDone[o] {
			return nil
		}
		_ = st
		onceDone[o] = true
		call(fr.i, fr, 0, args[1], nil)
		return nil
	}
	// Mutexes: no-ops under the default cooperative scheduler (a goroutine is switched out only where it blocks
	// on a channel); real lock state + schedule decision points in the schedule-exploring mode (schednondet.go).
	externals["(*sync.Mutex).Lock"] = func(fr *frame, args []value) value { mutexOp(args[0].(*value), mLock); return nil }
	externals["(*sync.Mutex).Unlock"] = func(fr *frame, args []value) value { mutexOp(args[0].(*value), mUnlock); return nil }
	externals["(*sync.RWMutex).Lock"] = func(fr *frame, args []value) value { mutexOp(args[0].(*value), mLock); return nil }
	externals["(*sync.RWMutex).Unlock"] = func(fr *frame, args []value) value { mutexOp(args[0].(*value), mUnlock); return nil }
	externals["(*sync.RWMutex).RLock"] = func(fr *frame, args []value) value { mutexOp(args[0].(*value), mRLock); return nil }
	externals["(*sync.RWMutex).RUnlock"] = func(fr *frame, args []value) value { mutexOp(args[0].(*value), mRUnlock); return nil }
	externals["crypto/sha256.Sum256"] = func(fr *frame, args []value) value {
		a := args[0].([]value)
		out := make(array, 32)
		var h byte
		for _, b := range a {
			h = h*31 + b.(byte)
		}
		for i := range out {
			out[i] = h
		}
		return out
	}
}

var onceDone = map[*value]bool{}
var _ ssa.Value

func init() {
	externals["(*sync.Pool).Get"] = func(fr *frame, args []value) value {
		st := (*args[0].(*value)).(structure)
		newf := st[len(st)-1] // New func() any is the last field
		switch f := newf.(type) {
		case *ssa.Function:
			if f == nil {
				return iface{}
			}
		case nil:
			return iface{}
		}
		return call(fr.i, fr, 0, newf, nil)
	}
	externals["(*sync.Pool).Put"] = func(fr *frame, args []value) value { return nil }
}

func init() {
	externals["runtime.Callers"] = func(fr *frame, args []value) value { return 0 }
	externals["github.com/pkg/errors.callers"] = func(fr *frame, args []value) value { return (*value)(nil) }
}

func init() {
	// identity: only hides the pointer from escape analysis
	externals["internal/abi.NoEscape"] = func(fr *frame, args []value) value { return args[0] }
	externals["strings.noescape"] = func(fr *frame, args []value) value { return args[0] }
}

// sync/atomic on plain integers and pointers: one interpreted goroutine runs at a time, so plain
// loads/stores are atomic in the engine.
func init() {
	ld := func(fr *frame, args []value) value { return *args[0].(*value) }
	st := func(fr *frame, args []value) value { *args[0].(*value) = args[1]; return nil }
	swap := func(fr *frame, args []value) value {
		p := args[0].(*value)
		old := *p
		*p = args[1]
		return old
	}
	for _, t := range []string{"Int32", "Int64", "Uint32", "Uint64", "Uintptr", "Pointer"} {
		externals["sync/atomic.Load"+t] = ld
		externals["sync/atomic.Store"+t] = st
		externals["sync/atomic.Swap"+t] = swap
		tt := t
		externals["sync/atomic.CompareAndSwap"+t] = func(fr *frame, args []value) value {
			p := args[0].(*value)
			eq := binop(token.EQL, atomicType(tt), *p, args[1])
			if decideV(eq) {
				*p = args[2]
				return true
			}
			return false
		}
		if t != "Pointer" {
			externals["sync/atomic.Add"+t] = func(fr *frame, args []value) value {
				p := args[0].(*value)
				*p = binop(token.ADD, atomicType(tt), *p, args[1])
				return *p
			}
		}
	}
}

func atomicType(t string) types.Type {
	switch t {
	case "Int32":
		return types.Typ[types.Int32]
	case "Int64":
		return types.Typ[types.Int64]
	case "Uint32":
		return types.Typ[types.Uint32]
	case "Uint64":
		return types.Typ[types.Uint64]
	case "Uintptr":
		return types.Typ[types.Uintptr]
	}
	return types.Typ[types.UnsafePointer]
}

func init() {
	// sync.Cond: no harness waits on one; wake-ups are no-ops
	nop := func(fr *frame, args []value) value { return nil }
	externals["(*sync.Cond).Broadcast"] = nop
	externals["(*sync.Cond).Signal"] = nop
	externals["(*sync.Cond).Wait"] = func(fr *frame, args []value) value {
		panic("sync.Cond.Wait is not modelled")
	}
}

func init() {
	externals["internal/bytealg.MakeNoZero"] = func(fr *frame, args []value) value {
		n := int(asInt64(args[0]))
		b := make([]value, n)
		for i := range b {
			b[i] = byte(0)
		}
		return b
	}
}

func init() {
	// strings are immutable values in the engine: cloning is the identity
	id := func(fr *frame, args []value) value { return args[0] }
	externals["internal/stringslite.Clone"] = id
	externals["strings.Clone"] = id
}
