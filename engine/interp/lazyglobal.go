package interp

// Lazy initialisation of package-level variables of packages whose init() is not run
// (DESIGN 2.3): on first read of global g, the backward slice of the stores into g inside the
// package's synthetic init function is executed. If the slice is not straight-line evaluable
// the global is left zero and the path is marked inconclusive (never silently zero).

import (
	"fmt"
	"go/types"

	"golang.org/x/tools/go/ssa"
)

type globalInitPlan struct {
	instrs []ssa.Instruction // in program order
	bad    string
}

var globalPlans = map[*ssa.Global]*globalInitPlan{}

func rootGlobal(v ssa.Value) *ssa.Global {
	for {
		switch x := v.(type) {
		case *ssa.Global:
			return x
		case *ssa.FieldAddr:
			v = x.X
		case *ssa.IndexAddr:
			v = x.X
		default:
			return nil
		}
	}
}

func planGlobal(g *ssa.Global) *globalInitPlan {
	if p, ok := globalPlans[g]; ok {
		return p
	}
	p := &globalInitPlan{}
	globalPlans[g] = p
	if g.Pkg == nil {
		return p
	}
	initFn := g.Pkg.Func("init")
	if initFn == nil {
		return p
	}
	need := map[ssa.Instruction]bool{}
	var addVal func(v ssa.Value)
	addInstr := func(in ssa.Instruction) {
		if need[in] {
			return
		}
		need[in] = true
		var ops []*ssa.Value
		for _, op := range in.Operands(ops) {
			if *op != nil {
				addVal(*op)
			}
		}
	}
	addVal = func(v ssa.Value) {
		switch x := v.(type) {
		case *ssa.Phi:
			p.bad = "phi in initializer of " + g.String()
		case *ssa.Alloc:
			addInstr(x)
			// stores into this allocation (composite literals) are part of the slice
			for _, ref := range *x.Referrers() {
				if st, ok := ref.(*ssa.Store); ok && st.Addr == ssa.Value(x) {
					addInstr(st)
				}
				if fa, ok := ref.(*ssa.FieldAddr); ok {
					addInstr(fa)
					for _, r2 := range *fa.Referrers() {
						if st, ok := r2.(*ssa.Store); ok && st.Addr == ssa.Value(fa) {
							addInstr(st)
						}
					}
				}
				if ia, ok := ref.(*ssa.IndexAddr); ok {
					addInstr(ia)
					for _, r2 := range *ia.Referrers() {
						if st, ok := r2.(*ssa.Store); ok && st.Addr == ssa.Value(ia) {
							addInstr(st)
						}
					}
				}
			}
		case ssa.Instruction:
			addInstr(x)
		}
	}
	found := false
	for _, b := range initFn.Blocks {
		for _, in := range b.Instrs {
			switch st := in.(type) {
			case *ssa.Store:
				if rootGlobal(st.Addr) == g {
					found = true
					addInstr(st)
				}
			case *ssa.MapUpdate:
				// m[k] = v on a global map initialised by a composite literal
				if ld, ok := st.Map.(*ssa.UnOp); ok {
					if rootGlobal(ld.X) == g {
						addInstr(st)
					}
				}
			}
		}
	}
	if !found {
		return p
	}
	for _, b := range initFn.Blocks {
		for _, in := range b.Instrs {
			if need[in] {
				switch in.(type) {
				case *ssa.If, *ssa.Jump, *ssa.Return, *ssa.Panic, *ssa.Go, *ssa.Defer, *ssa.Select, *ssa.Send:
					p.bad = "control flow in initializer of " + g.String()
				}
				p.instrs = append(p.instrs, in)
			}
		}
	}
	return p
}

// lazyGlobal allocates the cell of g and runs its initializer slice.
func (i *interpreter) lazyGlobal(fr *frame, g *ssa.Global) *value {
	cell := zero(mustDeref(g.Type()))
	pc := &cell
	i.globals[g] = pc
	if g.Pkg != nil && InitOK(g.Pkg.Pkg.Path()) {
		return pc // this package's init() is executed for real
	}
	p := planGlobal(g)
	if p.bad != "" {
		if EX != nil {
			EX.Inconcl["lazy-global: "+p.bad]++
		}
		return pc
	}
	if len(p.instrs) == 0 {
		return pc
	}
	initFn := g.Pkg.Func("init")
	nfr := &frame{i: i, fn: initFn, caller: fr}
	nfr.env = make(map[ssa.Value]value)
	nfr.locals = make([]value, len(initFn.Locals))
	for k, l := range initFn.Locals {
		nfr.locals[k] = zero(mustDeref(l.Type()))
		nfr.env[l] = &nfr.locals[k]
	}
	func() {
		defer func() {
			if r := recover(); r != nil {
				if _, ok := r.(pathEnd); ok {
					panic(r)
				}
				if EX != nil {
					EX.Inconcl["lazy-global: initializer of "+g.String()+" failed: "+firstLine(fmt.Sprint(r))]++
				}
			}
		}()
		for _, in := range p.instrs {
			nfr.block = in.Block()
			visitInstr(nfr, in)
		}
	}()
	return pc
}

var _ types.Type
