package interp

import (
	"go/token"
	"math/big"
	"go/types"
	"strings"
	"time"

	"golang.org/x/tools/go/ssa"
)

func newInterp(prog *ssa.Program, sizes types.Sizes) *interpreter {
	i := &interpreter{
		prog:       prog,
		globals:    make(map[*ssa.Global]*value),
		sizes:      sizes,
		goroutines: 1,
	}
	runtimePkg := i.prog.ImportedPackage("runtime")
	i.runtimeErrorString = runtimePkg.Type("errorString").Object().Type()
	initReflect(i)
	return i
}

// Explore runs pkg.fn() over all paths.
func Explore(pkg *ssa.Package, fn string, sizes types.Sizes, budget time.Duration) *Explorer {
	e := &Explorer{Z: NewSolver(), qcache: map[string]qres{}}
	if budget > 0 {
		e.deadline = time.Now().Add(budget)
	}
	EX = e
	defNames = map[string]string{}
	seenVars = map[string]int{}
	pendingDefs = nil
	varRange = map[string][2]*big.Int{}
	varSigned = map[string]bool{}
	f := pkg.Func(fn)
	if f == nil {
		panic("no func " + fn)
	}
	e.Run(func() {
		onceDone = map[*value]bool{}
		SCH = newScheduler()
		sideMaps = map[*value]*hashmap{}
		vtimeReset()
		schedReset()
		jsonStore = nil
		i := newInterp(pkg.Prog, sizes)
		ti := time.Now()
		call(i, nil, token.NoPos, pkg.Func("init"), nil)
		e.InitWall += time.Since(ti)
		call(i, nil, token.NoPos, f, nil)
	})
	return e
}

var Params map[string]uint64

func intrinsic(name string, args []value) (value, bool) {
	idx := strings.LastIndex(name, ".zz")
	if idx < 0 {
		return nil, false
	}
	switch name[idx+1:] {
	case "zzNondetU64":
		return EX.nondet(args[0].(string), types.Uint64), true
	case "zzNondetBool":
		return EX.nondet(args[0].(string), types.Bool), true
	case "zzNondetByte":
		return EX.nondet(args[0].(string), types.Uint8), true
	case "zzNondetRange":
		if Fixed != nil {
			return EX.nondet(args[0].(string), types.Uint64), true
		}
		v := EX.nondet(args[0].(string), types.Uint64).(sym)
		lo, hi := new(big.Int).SetUint64(args[1].(uint64)), new(big.Int).SetUint64(args[2].(uint64))
		varRange[v.t.Name] = [2]*big.Int{lo, hi}
		EX.pc = append(EX.pc, mkAnd(mk("bvuge", 0, v.t, mkConst(64, args[1].(uint64))), mk("bvule", 0, v.t, mkConst(64, args[2].(uint64)))))
		return v, true
	case "zzNondetI64":
		return EX.nondet(args[0].(string), types.Int64), true
	case "zzChoose":
		n := args[1].(int)
		if Fixed != nil {
			c := EX.nondet(args[0].(string), types.Int).(int)
			if c < 0 || c >= n {
				c = 0
			}
			return c, true
		}
		v := EX.nondet(args[0].(string), types.Int).(sym)
		varRange[v.t.Name] = [2]*big.Int{big.NewInt(0), big.NewInt(int64(n - 1))}
		z := mkConst(64, 0)
		z.S = true
		h := mkConst(64, uint64(n-1))
		h.S = true
		EX.pc = append(EX.pc, mkAnd(mk("bvsge", 0, v.t, z), mk("bvsle", 0, v.t, h)))
		return EX.concretize(v), true
	case "zzConcretizeU64":
		// fork over every feasible value of the argument (solver-enumerated) and continue with a constant
		if sx, ok := args[0].(sym); ok {
			return EX.concretize(sx), true
		}
		return args[0], true
	case "zzParam":
		return Params[args[0].(string)], true
	case "zzSymbolic":
		return hasSym(args[0]), true
	case "zzYield":
		if SchedNondet {
			SCH.preempt()
			return nil, true
		}
		me := SCH.cur
		SCH.switchAwayOnce(me)
		return nil, true
	case "zzAssume":
		EX.assume(args[0])
		return nil, true
	case "zzAssert":
		EX.assert(args[0], args[1].(string))
		return nil, true
	case "zzReach":
		EX.Witness["reach:"+args[0].(string)]++
		EX.reached = true
		EX.curReach = append(EX.curReach, args[0].(string))
		return nil, true
	}
	return nil, false
}
