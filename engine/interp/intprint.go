package interp

import (
	"fmt"
	"math/big"
	"strings"
)

// PROTOTYPE integer-theory printer v2: a BV-typed term denotes the mathematical value of the
// Go value (signed for signed kinds). Intervals are tracked so that wrap-around (mod 2^W) is
// emitted only when overflow cannot be excluded. Large subterms are shared via define-fun.

var UseInt = false

type ival struct {
	s      string
	lo, hi *big.Int
}

var seenVars = map[string]int{} // every Int-typed variable that was ever printed (may occur in a define-fun)

var (
	defNames    = map[string]string{} // expr -> name
	pendingDefs []string
	varRange    = map[string][2]*big.Int{}
)

func bi(x int64) *big.Int { return big.NewInt(x) }
func p2(w int) *big.Int   { return new(big.Int).Lsh(big.NewInt(1), uint(w)) }

func typeRange(w int, signed bool) (*big.Int, *big.Int) {
	if signed {
		h := p2(w - 1)
		return new(big.Int).Neg(h), new(big.Int).Sub(h, bi(1))
	}
	return bi(0), new(big.Int).Sub(p2(w), bi(1))
}

func share(s string) string {
	if len(s) < 48 {
		return s
	}
	if n, ok := defNames[s]; ok {
		return n
	}
	n := fmt.Sprintf("t!%d", len(defNames))
	defNames[s] = n
	pendingDefs = append(pendingDefs, fmt.Sprintf("(define-fun %s () Int %s)\n", n, s))
	return n
}

func lit(x *big.Int) string {
	if x.Sign() < 0 {
		return "(- " + new(big.Int).Neg(x).String() + ")"
	}
	return x.String()
}

// fit wraps expression v (interval lo..hi) into the range of (w,signed) if needed.
func fit(v ival, w int, signed bool) ival {
	tl, th := typeRange(w, signed)
	if v.lo.Cmp(tl) >= 0 && v.hi.Cmp(th) <= 0 {
		return v
	}
	m := p2(w).String()
	var s string
	if signed {
		h := p2(w - 1).String()
		s = fmt.Sprintf("(- (mod (+ %s %s) %s) %s)", v.s, h, m, h)
	} else {
		s = fmt.Sprintf("(mod %s %s)", v.s, m)
	}
	return ival{share(s), tl, th}
}

func minmax(xs ...*big.Int) (*big.Int, *big.Int) {
	lo, hi := xs[0], xs[0]
	for _, x := range xs[1:] {
		if x.Cmp(lo) < 0 {
			lo = x
		}
		if x.Cmp(hi) > 0 {
			hi = x
		}
	}
	return lo, hi
}

func (t *Term) iv() ival {
	if t.ivDone {
		return t.ivc
	}
	r := t.iv0()
	t.ivc, t.ivDone = r, true
	return r
}

func (t *Term) iv0() ival {
	a := func(i int) ival { return t.Args[i].iv() }
	add := func(x, y *big.Int) *big.Int { return new(big.Int).Add(x, y) }
	sub := func(x, y *big.Int) *big.Int { return new(big.Int).Sub(x, y) }
	mul := func(x, y *big.Int) *big.Int { return new(big.Int).Mul(x, y) }
	switch t.Op {
	case "const":
		c := new(big.Int).SetUint64(t.C)
		if t.S && t.W > 0 && c.Cmp(p2(t.W-1)) >= 0 {
			c.Sub(c, p2(t.W))
		}
		return ival{lit(c), c, c}
	case "var":
		seenVars[t.Name] = t.W
		if r, ok := varRange[t.Name]; ok {
			return ival{t.Name, r[0], r[1]}
		}
		lo, hi := typeRange(t.W, t.S)
		return ival{t.Name, lo, hi}
	case "ite":
		x, y := a(1), a(2)
		lo, hi := minmax(x.lo, x.hi, y.lo, y.hi)
		return ival{share(fmt.Sprintf("(ite %s %s %s)", t.Args[0].IntString(), x.s, y.s)), lo, hi}
	case "bvadd":
		x, y := a(0), a(1)
		return fit(ival{share(fmt.Sprintf("(+ %s %s)", x.s, y.s)), add(x.lo, y.lo), add(x.hi, y.hi)}, t.W, t.S)
	case "bvsub":
		x, y := a(0), a(1)
		return fit(ival{share(fmt.Sprintf("(- %s %s)", x.s, y.s)), sub(x.lo, y.hi), sub(x.hi, y.lo)}, t.W, t.S)
	case "bvneg":
		x := a(0)
		return fit(ival{share(fmt.Sprintf("(- %s)", x.s)), new(big.Int).Neg(x.hi), new(big.Int).Neg(x.lo)}, t.W, t.S)
	case "bvmul":
		x, y := a(0), a(1)
		lo, hi := minmax(mul(x.lo, y.lo), mul(x.lo, y.hi), mul(x.hi, y.lo), mul(x.hi, y.hi))
		return fit(ival{share(fmt.Sprintf("(* %s %s)", x.s, y.s)), lo, hi}, t.W, t.S)
	case "bvudiv", "bvsdiv", "bvurem", "bvsrem":
		x, y := a(0), a(1)
		isDiv := strings.HasSuffix(t.Op, "div")
		if x.lo.Sign() >= 0 && y.lo.Sign() > 0 {
			if isDiv {
				return ival{share(fmt.Sprintf("(div %s %s)", x.s, y.s)), new(big.Int).Quo(x.lo, y.hi), new(big.Int).Quo(x.hi, y.lo)}
			}
			return ival{share(fmt.Sprintf("(mod %s %s)", x.s, y.s)), bi(0), sub(y.hi, bi(1))}
		}
		// general truncated division (divisor may be 0: Go panics before; treat as unconstrained)
		lo, hi := typeRange(t.W, t.S)
		if isDiv {
			s := fmt.Sprintf("(let ((x %s) (y %s)) (let ((q (div (abs x) (abs y)))) (ite (= (>= x 0) (>= y 0)) q (- q))))", x.s, y.s)
			return fit(ival{share(s), new(big.Int).Neg(new(big.Int).Abs(maxAbs(x))), new(big.Int).Abs(maxAbs(x))}, t.W, t.S)
		}
		s := fmt.Sprintf("(let ((x %s) (y %s)) (let ((r (mod (abs x) (abs y)))) (ite (>= x 0) r (- r))))", x.s, y.s)
		_ = lo
		_ = hi
		m := new(big.Int).Abs(maxAbs(y))
		return ival{share(s), new(big.Int).Neg(m), m}
	case "extract": // truncation to low bits [Hi..0] only (Lo==0) as produced by conversions
		x := a(0)
		if t.Lo == 0 {
			return fit(x, t.Hi+1, t.S)
		}
	case "zext", "sext":
		// value-preserving for matching signedness; reinterpretation handled by fit
		return fit(a(0), t.W, t.S)
	case "conv":
		return fit(a(0), t.W, t.S)
	case "bvand":
		for i := 0; i < 2; i++ {
			if c := t.Args[i]; c.Op == "const" && c.C&(c.C+1) == 0 {
				x := a(1 - i)
				if x.lo.Sign() >= 0 {
					k := 0
					for v := c.C; v != 0; v >>= 1 {
						k++
					}
					if x.hi.Cmp(new(big.Int).SetUint64(c.C)) <= 0 {
						return x
					}
					return ival{share(fmt.Sprintf("(mod %s %s)", x.s, p2(k))), bi(0), new(big.Int).SetUint64(c.C)}
				}
			}
		}
	case "bvor":
		for i := 0; i < 2; i++ {
			if c := t.Args[i]; c.Op == "const" && c.C == 0 {
				return a(1 - i)
			}
		}
		// disjoint bit ranges (byte assembly x | y<<k with 0 <= x < 2^k): or is addition
		for i := 0; i < 2; i++ {
			if sh := t.Args[i]; sh.Op == "bvshl" {
				if c := constThrough(sh.Args[1]); c != nil {
					x, y := a(1-i), a(i)
					if x.lo.Sign() >= 0 && x.hi.Cmp(p2(int(c.C))) < 0 && y.lo.Sign() >= 0 {
						return ival{share(fmt.Sprintf("(+ %s %s)", x.s, y.s)), new(big.Int).Add(x.lo, y.lo), new(big.Int).Add(x.hi, y.hi)}
					}
				}
			}
		}
	case "bvshl", "bvlshr", "bvashr":
		if c := constThrough(t.Args[1]); c != nil {
			x := a(0)
			k := p2(int(c.C))
			if t.Op == "bvshl" {
				return fit(ival{share(fmt.Sprintf("(* %s %s)", x.s, k)), mul(x.lo, k), mul(x.hi, k)}, t.W, t.S)
			}
			if x.lo.Sign() >= 0 {
				return ival{share(fmt.Sprintf("(div %s %s)", x.s, k)), new(big.Int).Quo(x.lo, k), new(big.Int).Quo(x.hi, k)}
			}
		}
	}
	d := t.Op
	for _, x := range t.Args {
		d += " [" + x.Op + fmt.Sprintf(":%d:%x", x.W, x.C) + "]"
	}
	panic(pathEnd{"intprint: unsupported " + d})
}

// constThrough sees a constant through width conversions (shift amounts are converted to the operand width)
func constThrough(t *Term) *Term {
	for t != nil {
		switch t.Op {
		case "const":
			return t
		case "zext", "conv":
			t = t.Args[0]
		case "extract":
			if t.Lo != 0 {
				return nil
			}
			if c := constThrough(t.Args[0]); c != nil && t.Hi < 63 {
				return &Term{Op: "const", W: t.Hi + 1, C: c.C & (1<<uint(t.Hi+1) - 1)}
			}
			return nil
		default:
			return nil
		}
	}
	return nil
}

func maxAbs(x ival) *big.Int {
	a, b := new(big.Int).Abs(x.lo), new(big.Int).Abs(x.hi)
	if a.Cmp(b) > 0 {
		return a
	}
	return b
}

func (t *Term) IntString() string {
	switch t.Op {
	case "true", "false":
		return t.Op
	case "var":
		if t.W == 0 {
			return t.Name
		}
	case "not", "and", "or":
		var sb strings.Builder
		sb.WriteString("(" + t.Op)
		for _, x := range t.Args {
			sb.WriteString(" " + x.IntString())
		}
		sb.WriteString(")")
		return sb.String()
	case "=":
		if t.Args[0].W == 0 && !isBVOp(t.Args[0]) {
			return "(= " + t.Args[0].IntString() + " " + t.Args[1].IntString() + ")"
		}
		return "(= " + t.Args[0].iv().s + " " + t.Args[1].iv().s + ")"
	case "ite":
		if t.W == 0 {
			return "(ite " + t.Args[0].IntString() + " " + t.Args[1].IntString() + " " + t.Args[2].IntString() + ")"
		}
	case "bvult", "bvslt":
		return "(< " + t.Args[0].iv().s + " " + t.Args[1].iv().s + ")"
	case "bvule", "bvsle":
		return "(<= " + t.Args[0].iv().s + " " + t.Args[1].iv().s + ")"
	case "bvugt", "bvsgt":
		return "(> " + t.Args[0].iv().s + " " + t.Args[1].iv().s + ")"
	case "bvuge", "bvsge":
		return "(>= " + t.Args[0].iv().s + " " + t.Args[1].iv().s + ")"
	}
	return t.iv().s
}

func isBVOp(t *Term) bool { return t.W > 0 }
