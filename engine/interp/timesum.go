package interp

import (
	"go/token"
	"go/types"
)

// PROTOTYPE native model of time.Time: structure{wall=nsec (0..1e9-1, no monotonic bit), ext=seconds since year 1, loc}.

const unixToInternal int64 = 62135596800

func tAdd(x, y value) value { return binop(token.ADD, nil, x, y) }
func tSub(x, y value) value { return binop(token.SUB, nil, x, y) }
func tMul(x, y value) value { return binop(token.MUL, nil, x, y) }
func tLt(x, y value) value  { return binop(token.LSS, nil, x, y) }
func tEq(x, y value) value  { return binop(token.EQL, types.Typ[types.Int64], x, y) }
func bAnd(x, y value) value {
	if xb, ok := x.(bool); ok {
		if !xb {
			return false
		}
		return y
	}
	if yb, ok := y.(bool); ok {
		if !yb {
			return false
		}
		return x
	}
	return sym{types.Bool, mkAnd(x.(sym).t, y.(sym).t)}
}
func bOr(x, y value) value {
	if xb, ok := x.(bool); ok {
		if xb {
			return true
		}
		return y
	}
	if yb, ok := y.(bool); ok {
		if yb {
			return true
		}
		return x
	}
	return sym{types.Bool, mk("or", 0, x.(sym).t, y.(sym).t)}
}

func timeParts(t value) (nsec value, sec value, loc value) {
	s := t.(structure)
	return conv(types.Typ[types.Int64], types.Typ[types.Uint64], s[0]), s[1], s[2]
}

func mkTime(nsec, sec, loc value) value {
	return structure{conv(types.Typ[types.Uint64], types.Typ[types.Int64], nsec), sec, loc}
}

var lastNow *Term

func timeSummary(fr *frame, name string, args []value) (value, bool) {
	if v, ok := vtimeSummary(fr, frFn(fr, name), name, args); ok {
		return v, true
	}
	switch name {
	case "time.Unix":
		return mkTime(args[1], tAdd(args[0], int64(unixToInternal)), (*value)(nil)), true
	case "time.Now":
		v := clockRead(nil)
		return mkTime(int64(0), tAdd(v, int64(unixToInternal)), (*value)(nil)), true
	case "(time.Time).Add":
		n, s, l := timeParts(args[0])
		tot := tAdd(n, args[1]) // ns, may be negative or >= 1e9
		// floor div/mod by 1e9: shift to non-negative first (durations here are |d| < 2^62)
		const bias = int64(4_000_000_000) // seconds
		shifted := tAdd(tot, int64(bias)*1_000_000_000)
		q := binop(token.QUO, nil, shifted, int64(1_000_000_000))
		r := binop(token.REM, nil, shifted, int64(1_000_000_000))
		return mkTime(r, tSub(tAdd(s, q), int64(bias)), l), true
	case "(time.Time).Sub":
		n1, s1, _ := timeParts(args[0])
		n2, s2, _ := timeParts(args[1])
		return tAdd(tMul(tSub(s1, s2), int64(1_000_000_000)), tSub(n1, n2)), true
	case "(time.Time).Before", "(time.Time).After":
		a, b := args[0], args[1]
		if name == "(time.Time).After" {
			a, b = b, a
		}
		n1, s1, _ := timeParts(a)
		n2, s2, _ := timeParts(b)
		return bOr(tLt(s1, s2), bAnd(tEq(s1, s2), tLt(n1, n2))), true
	case "(time.Time).Equal":
		n1, s1, _ := timeParts(args[0])
		n2, s2, _ := timeParts(args[1])
		return bAnd(tEq(s1, s2), tEq(n1, n2)), true
	case "(time.Time).Unix":
		_, s, _ := timeParts(args[0])
		return tSub(s, int64(unixToInternal)), true
	case "time.Since":
		now, _ := timeSummary(fr, "time.Now", nil)
		return timeSummary(fr, "(time.Time).Sub", []value{now, args[0]})
	case "time.Until":
		now, _ := timeSummary(fr, "time.Now", nil)
		return timeSummary(fr, "(time.Time).Sub", []value{args[0], now})
	}
	return nil, false
}
