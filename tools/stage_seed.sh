#!/bin/bash
# stage_seed.sh <round-id e.g. r9-C16> <srcdir> <demo-file> <dest-path-in-repo> "<go test run args>" "<pkgs for existing tests>"
# copies a sub-agent's deliverables to seeded_staging/<id>, registers it in tools/seeds.json, confirms it in a scratch
# worktree (confirm_seed.py) and runs the property's quick check against a scratch worktree with the patch (seedtest_wt.sh)
SID=$1; SRC=$2; DEMO=$3; DEST=$4; RUN=$5; PKGS=$6
cd /verif
mkdir -p seeded_staging/$SID && cp -r $SRC/. seeded_staging/$SID/
python3 - "$SID" "$DEMO" "$DEST" "$RUN" "$PKGS" <<'PY'
import json,sys
sid,demo,dest,run,pkgs=sys.argv[1:6]
p='/verif/tools/seeds.json'; s=json.load(open(p))
s[sid]={"demos":{demo:dest},"overlay":True,"run":run,"pkgs":pkgs}
json.dump(s,open(p,'w'),indent=1)
PY
python3 tools/confirm_seed.py $SID
PID=${SID#*-}
tools/seedtest_wt.sh $PID seeded_staging/$SID/patch.diff 2>&1 | tail -12
