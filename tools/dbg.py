#!/usr/bin/env python3
"""dbg.py <ID> <tier> <Func> [maxpaths]: re-run one harness with engine tracing on (uses the spec written by check.py)"""
import json, sys, subprocess, os
pid, tier, fn = sys.argv[1:4]
mp = int(sys.argv[4]) if len(sys.argv) > 4 else 1
s = json.load(open('/verif/out/%s/%s/%s.spec.json' % (pid, tier, fn)))
s['trace'] = True
s['funcs'][0]['maxpaths'] = mp
json.dump(s, open('/verif/out/dbg.spec.json', 'w'))
env = dict(os.environ, GOFLAGS="-mod=mod", GOPROXY="off", GOSUMDB="off", GOTOOLCHAIN="local")
subprocess.run(['/verif/bin/gosym', '-spec', '/verif/out/dbg.spec.json', '-out', '/verif/out/dbg.out.json'], env=env)
