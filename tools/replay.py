#!/usr/bin/env python3
"""replay.py <model.json|spec.json>: re-runs a stored counterexample.
 - .../replay_<Func>_<n>/model.json : native replay (go test -overlay against /repo's current tree)
 - .../<Func>.replayN.spec.json     : engine-concrete replay (all nondets fixed to the model)"""
import json, os, subprocess, sys
p = os.path.abspath(sys.argv[1])
env = dict(os.environ, GOFLAGS="-mod=mod", GOPROXY="off", GOSUMDB="off", GOTOOLCHAIN="local")
if p.endswith("model.json"):
    d = os.path.dirname(p)
    m = json.load(open(p))
    ov = json.load(open(os.path.join(d, "overlay.json")))
    pkgdir = [os.path.dirname(k) for k in ov["Replace"] if k.endswith("zz_replay_test.go")][0]
    cmd = ["go", "test", "-overlay", os.path.join(d, "overlay.json"), "-ldflags=-checklinkname=0", "-vet=off", "-count=1", "-v", "-run", "^TestZZReplay$", pkgdir]
    print("label:", m.get("label"), "func:", m.get("func"))
    r = subprocess.run(cmd, cwd="/repo", env=dict(env, ZZ_MODEL=p))
    sys.exit(r.returncode)
else:
    r = subprocess.run(["/verif/bin/gosym", "-spec", p], env=env)
    sys.exit(r.returncode)
