#!/usr/bin/env python3
"""record_seed.py <sid> <harness> <assertion> <history text> [replay]: moves a confirmed staged seed to seeded/<sid>/ with
   the confirmation and the detecting check recorded in meta.json"""
import json, os, shutil, sys
sid, harness, label, history = sys.argv[1:5]
replay = sys.argv[5] if len(sys.argv) > 5 else "reproduced(engine-concrete)"
src, dst = "/verif/seeded_staging/" + sid, "/verif/seeded/" + sid
conf = json.load(open(src + "/confirm.json"))
assert conf.get("confirmed"), "seed not confirmed"
pid = sid.split("-")[-1]
m = json.load(open(src + "/meta.json"))
m["round"] = int(sid[1:].split("-")[0]) if sid.startswith("r") else 1
m["confirmed_by_me"] = {"how": "tools/confirm_seed.py (scratch worktree under /tmp/cw, removed afterwards)", "result": conf}
m["detected_by"] = {"check": pid, "harness": harness, "first_violated_assertion": label,
                    "how": "tools/seedtest_wt.sh %s seeded/%s/patch.diff" % (pid, sid), "history": history, "replay": replay}
os.makedirs(dst, exist_ok=True)
for f in os.listdir(src):
    if os.path.isfile(os.path.join(src, f)) and not f.endswith(".test"):
        shutil.copy(os.path.join(src, f), dst)
json.dump(m, open(dst + "/meta.json", "w"), indent=1)
for l in open("/verif/properties.jsonl"):
    p = json.loads(l)
    if p["id"] == pid:
        json.dump({"id": pid, "title": p["title"], "statement": p["statement"]}, open(dst + "/property.json", "w"), indent=1)
print("recorded", dst)
