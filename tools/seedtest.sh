#!/bin/bash
# seedtest.sh <ID> <patch.diff> [extra check.py args]: apply a seeded change to /repo, run the check, undo it.
ID=$1; P=$(realpath $2); shift 2
cd /repo && git apply "$P" || { echo "PATCH DOES NOT APPLY"; exit 3; }
cd /verif && timeout 1500 python3 check.py "$ID" --tier quick "$@" 2>&1 | tail -8
rc=${PIPESTATUS[0]}
git -C /repo checkout -- . && git -C /repo status --short
echo "seedtest $ID rc=$rc"
