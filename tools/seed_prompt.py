#!/usr/bin/env python3
"""prints the prompt given to a seeding sub-agent for property <ID> (property text only; nothing else from /verif)"""
import json, sys
pid = sys.argv[1]
WT = sys.argv[2] if len(sys.argv) > 2 else '/tmp/wt'
SD = sys.argv[3] if len(sys.argv) > 3 else '/tmp/seed'
AVOID = sys.argv[4] if len(sys.argv) > 4 else ''
for l in open('/verif/properties.jsonl'):
    p = json.loads(l)
    if p['id'] == pid:
        break
print(f"""You are helping to evaluate a verification tool by producing ONE realistic, subtle defect ("seeded change") in the Go project bloxapp/ssv (an SSV node: Istanbul-BFT/QBFT consensus among operators holding BLS key shares of an Ethereum validator).

Your private scratch copy of the repository is the git worktree at {WT}/{pid} (detached HEAD of the pinned commit). Work ONLY there and under {SD}/{pid}. Do NOT read, list or touch /verif or /repo, do not commit anything, do not create other worktrees.

THE PROPERTY your change must break (this text is all you get about it):

  Title: {p['title']}
  Statement: {p['statement']}
  Quantified over: {p['quantifier']['text']}
  Code the property is anchored in: {', '.join(p['anchors']['files'])}
  Mechanisms meant to make it hold: {json.dumps(p['anchors']['mechanism'])}

WHAT TO PRODUCE
A small source change to bloxapp/ssv (non-test .go files in the worktree; typically 1-15 lines, the kind of slip a real developer could make in a refactor, an optimisation, or a "simplification") such that:
  1. the repository still compiles (go build ./... for the packages that built before) and the EXISTING tests of the touched packages and their dependents still pass, unedited;
  2. the property above is violated, but ONLY under something specific: a particular interleaving, a crash or fault at a particular point, a multi-step sequence of operations, an unusual input/field combination, a boundary value, or two cooperating sites that each look fine alone. NOT a change that ordinary use or any existing test would expose at once (e.g. do not simply delete a whole check so that everything is accepted, unless no existing test would notice and it still needs an unusual input to matter);
  3. you provide a DEMONSTRATION: a Go test file (in-package _test.go, or a small program) that FAILS with your change applied and PASSES on the unmodified code. It must exercise the real code (no mocks of the function you changed).

{('An earlier seeded change for this property already used this site, so choose a DIFFERENT site and mechanism: ' + AVOID) if AVOID else ''}
Prefer changes in the anchored files/mechanisms listed above. Think about which inputs/schedules the existing tests do not cover and aim there.

DELIVERABLES (all under {SD}/{pid}/):
  - patch.diff : output of `git -C {WT}/{pid} diff` containing ONLY the source change (NOT the demonstration test);
  - the demonstration test file(s), plus demo_cmd.txt with the exact command(s) to run it from the worktree root and where the file must be placed (path relative to the repo root);
  - meta.json : {{"property": "{pid}", "summary": "...what was changed...", "needs_to_manifest": "...the specific input/schedule/fault...", "why_existing_tests_pass": "...", "demo_fails_with_patch": true/false (as you observed), "demo_passes_without_patch": true/false (as you observed), "existing_tests_run": ["...commands you ran and their result..."]}}
When done, leave the worktree with the patch APPLIED and the demo test file in place. Your final message should summarise the change in 5-10 lines.

ENVIRONMENT (sealed sandbox, no network)
  - Always: export GOFLAGS=-mod=mod GOPROXY=off GOSUMDB=off GOTOOLCHAIN=local   (go 1.23.5). Use -vet=off -count=1 for go test.
  - The project's pinned test suite is `go test -vet=off -count=1 ./...` at the repo root; only some packages build in this sandbox. Packages such as message/validation, network/commons, network/records, ekm, eth/eventhandler, eth/executionclient, eth/eventsyncer, operator/validator, protocol/v2/ssv/runner, protocol/v2/ssv/validator fail to build here ONLY because of two dependency files; to build/run their tests use:
        go test -overlay /tmp/qaux/ov.json -ldflags=-checklinkname=0 -vet=off -count=1 ./<pkg>/...
    (this overlay touches only third-party files). Use the same flags for your demonstration if it lives in such a package. Tests that need the network or downloads (spectest JSON downloads) fail offline regardless; ignore those that already fail on the unmodified tree (check by `git stash`-free comparison: run them before making your change).
  - Some tests are timing-flaky (roundtimer, slotticker, nodeprobe, queue TestPriorityQueue_Pop); a failure there that also happens without your change does not count.
  - Keep build output small; do not fill /tmp. You have 16 cores shared with other jobs; avoid running the whole suite repeatedly - run the touched package(s) and the packages that import them.
""")
