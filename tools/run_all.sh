#!/bin/bash
# run_all.sh <tier>: runs every claimed check sequentially (evidence is rewritten by each check)
TIER=${1:-quick}
cd "$(dirname "$0")/.."
for id in $(python3 -c "import json;print(' '.join(c['property_id'] for c in json.load(open('MANIFEST.json'))['checks']))"); do
  echo "== $id"
  timeout ${2:-2400} python3 ./check.py $id --tier $TIER 2>&1 | grep -v "^WARN inconclusive\|^KNOWN" | tail -4 | cut -c1-300
  echo "rc=$?"
done
