#!/usr/bin/env python3
"""confirm_seed.py <ID> [srcdir]: confirms a seeded change in a scratch worktree of /repo (outside /repo and /verif):
   demo passes without the patch, patch applies and builds, demo fails with it, the packages' existing tests still pass.
   Writes the verdict into <srcdir>/confirm.json. The worktree is removed afterwards."""
import json, os, shutil, subprocess, sys
sid = sys.argv[1]
src = sys.argv[2] if len(sys.argv) > 2 else "/verif/seeded_staging/" + sid
cfg = json.load(open("/verif/tools/seeds.json"))[sid]
wt = "/tmp/cw/" + sid
env = dict(os.environ, GOFLAGS="-mod=mod", GOPROXY="off", GOSUMDB="off", GOTOOLCHAIN="local")
ov = ["-overlay", "/tmp/qaux/ov.json", "-ldflags=-checklinkname=0"]
def sh(cmd, **kw):
    r = subprocess.run(cmd, capture_output=True, text=True, env=env, **kw)
    return r.returncode, (r.stdout + r.stderr)[-3000:]
subprocess.run(["git", "-C", "/repo", "worktree", "remove", "--force", wt], capture_output=True)
os.makedirs("/tmp/cw", exist_ok=True)
rc, out = sh(["git", "-C", "/repo", "worktree", "add", "--detach", wt, "HEAD"])
res = {"seed": sid, "repo_head": subprocess.run(["git", "-C", "/repo", "rev-parse", "--short", "HEAD"], capture_output=True, text=True).stdout.strip()}
try:
    for s, d in cfg["demos"].items():
        shutil.copy(os.path.join(src, s), os.path.join(wt, d))
    test = ["go", "test"] + ov + ["-vet=off", "-count=1"] + cfg["run"].split()
    rc0, out0 = sh(test, cwd=wt)
    res["demo_without_patch"] = {"rc": rc0, "tail": out0[-600:]}
    rca, outa = sh(["git", "apply", os.path.join(src, "patch.diff")], cwd=wt)
    res["patch_applies"] = rca == 0
    rc1, out1 = sh(test, cwd=wt)
    res["demo_with_patch"] = {"rc": rc1, "tail": out1[-900:]}
    for s, d in cfg["demos"].items():
        os.remove(os.path.join(wt, d))
    rc2, out2 = sh(["go", "test"] + ov + ["-vet=off", "-count=1"] + cfg["pkgs"].split(), cwd=wt)
    res["existing_tests_with_patch"] = {"rc": rc2, "cmd": "go test (overlay) " + cfg["pkgs"], "tail": out2[-900:]}
    res["confirmed"] = (rc0 == 0 and rca == 0 and rc1 != 0 and "[build failed]" not in out1 and rc2 == 0)
finally:
    subprocess.run(["git", "-C", "/repo", "worktree", "remove", "--force", wt], capture_output=True)
json.dump(res, open(os.path.join(src, "confirm.json"), "w"), indent=1)
print(sid, "confirmed" if res.get("confirmed") else "NOT-CONFIRMED", res.get("demo_without_patch", {}).get("rc"), res.get("demo_with_patch", {}).get("rc"), res.get("existing_tests_with_patch", {}).get("rc"))
