#!/bin/bash
# run_sel.sh <tier> <timeout-per-check> <id>...: runs the given checks in the given order (evidence rewritten by each)
TIER=$1; TO=$2; shift 2
cd "$(dirname "$0")/.."
for id in "$@"; do
  echo "== $id"
  timeout $TO python3 ./check.py $id --tier $TIER 2>&1 | grep -v "^WARN inconclusive\|^KNOWN" | tail -6 | cut -c1-300
  echo "rc=$?"
done
