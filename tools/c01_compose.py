#!/usr/bin/env python3-vt
"""C01 layer 2: composition query (pure SMT, regenerated on every run).
Universe: n=4 operators, operator 3 Byzantine (unconstrained except unforgeability), rounds 1..R, values {1,2} (0 = none).
Per honest operator i and round r: acc (accepted proposal value), prep (prepare sent), com (commit sent), rcs (round-change sent),
dec/decv (decision round / value). Constraints = exactly the lemmas asserted on the real code by the instance step harness:
  L1  prepare(r,v) only for the accepted proposal of r           (ZZHarnessStep: L1-*)
  L2  commit(r,v) only with accepted v and a prepare quorum       (L2-*)
  L3  decision (r,v) only with a commit quorum for (r,v)          (L3-*)
  L5  a round-change carries the sender's lock = its last commit  (L5-*, timeout harness)
  PV  a proposal accepted for r>1 is justified by a round-change quorum and re-proposes the highest prepared value,
      itself backed by a prepare quorum                            (pv-*)
Query: two honest decisions on different values. usage: c01_compose.py R [drop]   (drop one lemma => must become sat)"""
import sys, time
from z3 import *
R = int(sys.argv[1]) if len(sys.argv) > 1 else 3
drop = sys.argv[2] if len(sys.argv) > 2 else ""
H = [0,1,2]; BYZ = 3; Q = 3
s = Solver()
def val(n): 
    v = Int(n); s.add(v >= 0, v <= 2); return v
acc  = {(i,r): val(f"acc_{i}_{r}")  for i in H for r in range(1,R+1)}
prep = {(i,r): val(f"prep_{i}_{r}") for i in H for r in range(1,R+1)}
com  = {(i,r): val(f"com_{i}_{r}")  for i in H for r in range(1,R+1)}
rcs  = {(i,r): Bool(f"rcs_{i}_{r}") for i in H for r in range(2,R+1)}
dec  = {i: Int(f"dec_{i}") for i in H}
decv = {i: Int(f"decv_{i}") for i in H}
for i in H: s.add(dec[i] >= 0, dec[i] <= R, decv[i] >= 1, decv[i] <= 2)
def cnt(pred): return Sum([If(p,1,0) for p in pred])
def PQ(r, v):  # prepare quorum for (r,v): honest prepares + byzantine
    return cnt([prep[(j,r)] == v for j in H]) + 1 >= Q
def CQ(r, v):
    return cnt([com[(j,r)] == v for j in H]) + 1 >= Q
def PQsym(rs, v):  # rs symbolic round
    return Or([And(rs == r, PQ(r, v)) for r in range(1,R+1)])
# lock of honest i as carried by RC(r): last commit in rounds < r
def lock(i, r):
    pr, pv = IntVal(0), IntVal(0)
    for rp in range(1, r):
        pr = If(com[(i,rp)] != 0, IntVal(rp), pr)
        pv = If(com[(i,rp)] != 0, com[(i,rp)], pv)
    return pr, pv
for i in H:
    for r in range(1,R+1):
        if drop != "L1":
            s.add(Implies(prep[(i,r)] != 0, prep[(i,r)] == acc[(i,r)]))
        for v in (1,2):
            if drop != "L2":
                s.add(Implies(com[(i,r)] == v, And(acc[(i,r)] == v, PQ(r, v))))
            if drop != "L3":
                s.add(Implies(And(dec[i] == r, decv[i] == v), CQ(r, v)))
        if r >= 2:
            # P-valid for r>1
            inq = [Bool(f"inq_{i}_{r}_{j}") for j in range(4)]
            prb, pvb = Int(f"prb_{i}_{r}"), Int(f"pvb_{i}_{r}")
            s.add(prb >= 0, prb < r, pvb >= 0, pvb <= 2, (prb == 0) == (pvb == 0))
            locks = []
            for j in H:
                if drop == "L5":
                    pr, pv = Int(f"fpr_{i}_{r}_{j}"), Int(f"fpv_{i}_{r}_{j}")
                    s.add(pr >= 0, pr < r, pv >= 0, pv <= 2, (pr == 0) == (pv == 0))
                else:
                    pr, pv = lock(j, r)
                locks.append((inq[j], pr, pv))
            locks.append((inq[BYZ], prb, pvb))
            body = [cnt(inq) >= Q]
            for j in H: body.append(Implies(inq[j], rcs[(j,r)]))
            # byzantine prepared RC must carry a valid prepare quorum
            body.append(Implies(And(inq[BYZ], prb > 0), PQsym(prb, pvb)))
            anyprep = Or([And(q, pr > 0) for (q,pr,pv) in locks])
            # v = value of highest prepared in Q, backed by PQ
            hi = []
            for (q,pr,pv) in locks:
                ismax = And(q, pr > 0, And([Implies(q2, pr2 <= pr) for (q2,pr2,pv2) in locks]))
                hi.append(And(ismax, acc[(i,r)] == pv, PQsym(pr, pv)))
            body.append(Implies(anyprep, Or(hi)))
            if drop != "PV":
                s.add(Implies(acc[(i,r)] != 0, And(body)))
# disagreement
s.add(Or([And(dec[i] != 0, dec[j] != 0, decv[i] != decv[j]) for i in H for j in H if i < j]))
t = time.time(); r = s.check(); print("R=%d drop=%s ->" % (R, drop), r, "%.2fs" % (time.time()-t))
if r == sat and "-v" in sys.argv:
    m = s.model(); print(sorted([(str(d), m[d]) for d in m.decls()], key=lambda x: x[0]))
