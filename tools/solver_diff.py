#!/usr/bin/env python3
"""solver_diff.py: cross-checks the primary solver (z3 5.1.0) against z3 4.8.12 and cvc5 on a sample of the
queries the engine really asked (both encodings: bit-vector and interval-aware integer).
Re-runs a few harnesses with GOSYM_QUERYDUMP, then runs the other solvers on every dumped query.
Writes selfcheck/solver_diff.json; exit 1 on any disagreement (sat vs unsat)."""
import json, os, subprocess, sys, glob, shutil, time
V = os.path.dirname(os.path.dirname(os.path.abspath(__file__)))
env = dict(os.environ, GOFLAGS="-mod=mod", GOPROXY="off", GOSUMDB="off", GOTOOLCHAIN="local")
# (property, harness id) pairs to sample from: BV: queue, qbft step, topics; Int: validation, roundtimer
SAMPLES = [("C14", "ZZHarnessTryPop"), ("C01", "step-own1-p2"), ("C18", "ZZHarnessSubnetOfKey"), ("C09", "consensus-attester"), ("C17", "arming"), ("C04", "ZZHarnessSignAttestation")]
out = os.path.join(V, "out", "solverdiff")
shutil.rmtree(out, ignore_errors=True)
os.makedirs(out)
report = {"solvers": {}, "harnesses": [], "queries": 0, "agree": 0, "other_unknown_or_timeout": 0, "disagree": []}
for s in ("z3", "z3-new", "cvc5"):
    report["solvers"][s] = subprocess.run([s, "--version"], capture_output=True, text=True).stdout.strip().split("\n")[0]
for pid, hid in SAMPLES:
    spec = os.path.join(V, "out", pid, "quick", hid + ".spec.json")
    if not os.path.exists(spec):
        subprocess.run(["python3", os.path.join(V, "check.py"), pid, "--tier", "quick", "--only", hid], capture_output=True, env=dict(env, VERIF_TRACE_SAMPLES="0"))
    if not os.path.exists(spec):
        continue
    sp = json.load(open(spec))
    sp["funcs"][0]["maxpaths"] = 400
    sp["funcs"][0]["budget_s"] = 120
    d = os.path.join(out, pid + "_" + hid)
    json.dump(sp, open(d + ".spec.json", "w"))
    subprocess.run([os.path.join(V, "bin", "gosym"), "-spec", d + ".spec.json", "-out", d + ".result.json"], capture_output=True,
                   env=dict(env, GOSYM_QUERYDUMP=d, GOSYM_QUERYDUMP_EVERY="23"))
    qs = sorted(glob.glob(d + "/q*.smt2"))[:120]
    h = {"property": pid, "harness": hid, "queries": len(qs), "agree": 0, "unknown": 0, "disagree": 0}
    for q in qs:
        exp = open(q).readline().split()[-1]
        report["queries"] += 1
        for solver, cmd in (("z3", ["z3", "-T:20", q]), ("cvc5", ["cvc5", "--tlimit=20000", q])):
            try:
                r = subprocess.run(cmd, capture_output=True, text=True, timeout=40).stdout.strip().split("\n")
                got = [l for l in r if l in ("sat", "unsat", "unknown")]
                got = got[0] if got else "unknown"
            except subprocess.TimeoutExpired:
                got = "unknown"
            if got == exp:
                h["agree"] += 1; report["agree"] += 1
            elif got == "unknown":
                h["unknown"] += 1; report["other_unknown_or_timeout"] += 1
            else:
                h["disagree"] += 1
                report["disagree"].append({"query": q, "primary": exp, solver: got})
    report["harnesses"].append(h)
    print(h)
os.makedirs(os.path.join(V, "selfcheck"), exist_ok=True)
json.dump(report, open(os.path.join(V, "selfcheck", "solver_diff.json"), "w"), indent=1)
print("queries=%d agree=%d unknown/timeout(other solver)=%d disagree=%d" % (report["queries"], report["agree"], report["other_unknown_or_timeout"], len(report["disagree"])))
sys.exit(1 if report["disagree"] else 0)
