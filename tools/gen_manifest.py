#!/usr/bin/env python3
"""regenerates MANIFEST.json from checks/*.json + tools/manifest_meta.json"""
import json, os, glob
V = os.path.dirname(os.path.dirname(os.path.abspath(__file__)))
meta = json.load(open(os.path.join(V, "tools/manifest_meta.json")))
props = [json.loads(l)["id"] for l in open(os.path.join(V, "properties.jsonl"))]
checks, na = [], []
for pid in props:
    m = meta["properties"].get(pid, {})
    cfgp = os.path.join(V, "checks", pid + ".json")
    if os.path.exists(cfgp) and m.get("claimed"):
        checks.append({
            "property_id": pid,
            "quick_cmd": "python3 /verif/check.py %s --tier quick" % pid,
            "thorough_cmd": "python3 /verif/check.py %s --tier thorough" % pid,
            "evidence_file": "/verif/evidence/%s.json" % pid,
            "replay_cmd_template": "python3 /verif/tools/replay.py {path}",
            "engine": "gosym",
            "level_claimed": {"category": "other", "text": m["level_text"], "design_ref": m.get("design_ref", "DESIGN.md section 5/" + pid)},
            "level_note": m["level_note"],
            "technique": m.get("technique", "bounded symbolic execution of the real Go SSA (gosym) + SMT (z3): solver decides every assertion for all symbolic inputs within stated bounds; counterexamples replayed against the real build"),
        })
    else:
        na.append({"property_id": pid, "reason": m.get("na_reason", "check not built yet in this session (solver-based rig pending); see DESIGN.md section 7")})
man = {
    "version": 1,
    "setup_cmd": "cd /verif/engine && GOFLAGS=-mod=mod GOPROXY=off GOSUMDB=off GOTOOLCHAIN=local go build -o /verif/bin/gosym ./cmd/gosym",
    "hooks": {"guard": "none", "enable": "no hooks: harness files are injected in-package through go/packages Overlay (symbolic run) and go test -overlay (native replay); /repo is never modified by the checks",
              "baseline_off_cmd": "cd /repo && GOFLAGS=-mod=mod go test -vet=off -count=1 -timeout 25m ./...", "source_commits": [], "add_only": True},
    "engines": [{"name": "gosym", "path": "/verif/engine", "serves_properties": [c["property_id"] for c in checks],
                 "kind_free_text": "symbolic executor for Go SSA (fork of x/tools go/ssa/interp with symbolic scalars, decision-prefix re-execution, cooperative goroutine scheduler) driving one long-lived z3 -in session per harness; python driver check.py does replay, known-findings matching and evidence"}],
    "checks": checks,
    "not_applicable": na,
    "notes": meta.get("notes", ""),
}
json.dump(man, open(os.path.join(V, "MANIFEST.json"), "w"), indent=1)
print("claimed:", [c["property_id"] for c in checks], "n/a:", [n["property_id"] for n in na])
