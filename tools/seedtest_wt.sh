#!/bin/bash
# seedtest_wt.sh <ID> <patch.diff> [extra check.py args]: like seedtest.sh but against a scratch worktree of /repo
# (outside /repo and /verif, removed afterwards), so that it can run while other checks use /repo itself.
# Output and evidence of the experiment go to out_seed/ and evidence_seed/ (both git-ignored).
ID=$1; P=$(realpath $2); shift 2
WT=/tmp/cw/seedrun-$$
mkdir -p /tmp/cw
git -C /repo worktree add --detach $WT HEAD -q || exit 3
( cd $WT && git apply "$P" ) || { echo "PATCH DOES NOT APPLY"; git -C /repo worktree remove --force $WT; exit 3; }
cd /verif && VERIF_REPO=$WT VERIF_OUTDIR=out_seed VERIF_EVIDENCE_DIR=evidence_seed timeout 1500 python3 check.py "$ID" --tier quick "$@" 2>&1 | tail -8
rc=${PIPESTATUS[0]}
git -C /repo worktree remove --force $WT
echo "seedtest $ID rc=$rc"
