package commons

// C18 harnesses (network/commons): topic agreement between publisher, subscriber and validator,
// and the signed-envelope round trip.

import (
	"encoding/hex"
)

// ZZHarnessSubnetOfKey: for every 48-byte key (the first 5 bytes symbolic; hex digits are case-split by
// the engine), the subnet computed through hex encoding + ParseUint is the low 7 bits of byte 4, hence
// in [0, Subnets()).
func ZZHarnessSubnetOfKey() {
	pk := make([]byte, 48)
	for i := range pk {
		pk[i] = byte(0x3c + 7*i)
	}
	if zzParam("LEAD") == 1 {
		// the low end of the value range: the leading NSYM of the five relevant bytes symbolic, the rest zero
		for i := 0; i < 5; i++ {
			pk[i] = 0
		}
		for i := 0; i < int(zzParam("NSYM")); i++ {
			pk[i] = zzNondetByte("pk")
		}
	} else {
		for i := 5 - int(zzParam("NSYM")); i < 5; i++ {
			pk[i] = zzNondetByte("pk")
		}
	}
	sn := ValidatorSubnet(hex.EncodeToString(pk))
	zzAssert(sn == int(pk[4]&0x7f), "subnet-is-low-7-bits-of-byte-4")
	zzAssert(sn >= 0 && sn < Subnets(), "subnet-in-advertised-range")
	zzReach("end")
}

// the three call sites, written as the node uses them
func zzPublisherTopics(ids []string) []string { // p2pNetwork.Broadcast -> topicsCtrl.Broadcast
	var r []string
	for _, t := range ids {
		r = append(r, GetTopicFullName(t))
	}
	return r
}
func zzSubscriberTopics(ids []string) []string { // p2pNetwork.subscribe -> topicsCtrl.Subscribe
	var r []string
	for _, t := range ids {
		r = append(r, GetTopicFullName(t))
	}
	return r
}
func zzValidatorAccepts(ids []string, pubsubTopic string) bool { // validateP2PMessage topic check
	base := GetTopicBaseName(pubsubTopic)
	for _, t := range ids {
		if t == base {
			return true
		}
	}
	return false
}

// ZZHarnessTopicAgreement: NSYM trailing bytes of the 5 relevant key bytes symbolic; the subnet is
// concretised at the formatting point (<=128 values), so every subnet number is exercised.
func ZZHarnessTopicAgreement() {
	pk := make([]byte, 48)
	for i := range pk {
		pk[i] = byte(0xa0 + i)
	}
	nsym := int(zzParam("NSYM"))
	for i := 5 - nsym; i < 5; i++ {
		pk[i] = zzNondetByte("pk")
	}
	// ValidatorTopicID(pk) is what each of the three sites computes from the key (deterministic, so it is
	// evaluated once; the subnet is concretised inside at the "%d" formatting point)
	ids := ValidatorTopicID(pk)
	pub := zzPublisherTopics(ids)
	sub := zzSubscriberTopics(ids)
	zzAssert(len(pub) == 1 && len(sub) == 1, "single-topic")
	zzAssert(pub[0] == sub[0], "publisher-and-subscriber-same-topic")
	zzAssert(zzValidatorAccepts(ids, pub[0]), "validator-accepts-publishers-topic")
	// the validator accepts no other advertised topic for this key, and the topic is advertised
	n := 0
	adv := false
	for _, t := range Topics() {
		if t == pub[0] {
			adv = true
		}
		if zzValidatorAccepts(ids, t) {
			n++
		}
	}
	zzAssert(adv, "topic-within-advertised-range")
	zzAssert(n == 1, "validator-accepts-exactly-one-advertised-topic")
	zzReach("end")
}

// ZZHarnessShortKey: malformed keys shorter than 5 bytes: no panic, the three sites still agree.
func ZZHarnessShortKey() {
	l := zzChoose("len", 5)
	pk := make([]byte, l)
	for i := range pk {
		pk[i] = zzNondetByte("pk")
	}
	ids := ValidatorTopicID(pk)
	pub := zzPublisherTopics(ids)
	sub := zzSubscriberTopics(ids)
	zzAssert(len(pub) == 1 && len(sub) == 1 && pub[0] == sub[0], "short-key-publisher-subscriber-agree")
	zzAssert(zzValidatorAccepts(ids, pub[0]), "short-key-validator-accepts")
	zzReach("end")
}

// ZZHarnessEnvelope: Decode(Encode(m, id, sig)) == (m, id, sig) for len(m)=MLEN, all ids, 256-byte
// signatures; for other signature lengths the first 256 bytes, zero padded.
func ZZHarnessEnvelope() {
	mlen := int(zzParam("MLEN"))
	m := make([]byte, mlen)
	for i := range m {
		m[i] = zzNondetByte("m")
	}
	id := zzNondetU64("id")
	siglens := []int{256, 0, 1, 255, 257, 264, 265, 300}
	sl := siglens[zzChoose("siglen", len(siglens))]
	sig := make([]byte, sl)
	for i := range sig {
		if i < 2 || i >= sl-2 || (i >= 254 && i < 268) {
			sig[i] = zzNondetByte("sig")
		} else {
			sig[i] = byte(i)
		}
	}
	enc := EncodeSignedSSVMessage(m, id, sig)
	zzAssert(len(enc) == 256+8+mlen, "encoded-length")
	m2, id2, sig2, err := DecodeSignedSSVMessage(enc)
	zzAssert(err == nil, "decode-succeeds")
	zzAssert(id2 == id, "operator-id-round-trips")
	zzAssert(len(m2) == mlen, "message-length-round-trips")
	for i := range m2 {
		zzAssert(m2[i] == m[i], "message-round-trips")
	}
	zzAssert(len(sig2) == 256, "signature-is-256-bytes")
	for i := range sig2 {
		if i < len(sig) {
			zzAssert(sig2[i] == sig[i], "signature-round-trips")
		} else {
			zzAssert(sig2[i] == 0, "short-signature-zero-padded")
		}
	}
	zzReach("end")
}

// ZZHarnessDecodeArbitrary: Decode on an arbitrary buffer of length 0..LMAX never panics; it fails
// exactly when the buffer is shorter than the fixed header.
func ZZHarnessDecodeArbitrary() {
	lmax := int(zzParam("LMAX"))
	lens := []int{0, 1, 255, 256, 263, 264, 265, lmax}
	l := lens[zzChoose("len", len(lens))]
	b := make([]byte, l)
	for i := range b {
		if i < 2 || i >= l-10 {
			b[i] = zzNondetByte("b")
		}
	}
	m, _, sig, err := DecodeSignedSSVMessage(b)
	if l < 264 {
		zzAssert(err != nil, "short-buffer-rejected")
	} else {
		zzAssert(err == nil && len(sig) == 256 && len(m) == l-264, "decode-shape")
	}
	zzReach("end")
}
