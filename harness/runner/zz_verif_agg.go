package runner

// C03 / C05 on the real SyncCommitteeRunner (consensus on the block root -> post-consensus signature ->
// submission) and the real AggregatorRunner (selection proof -> consensus on the aggregate -> post-consensus
// signature -> submission), each over a real Controller/Instance.

import (
	"errors"

	"github.com/attestantio/go-eth2-client/spec"
	"github.com/attestantio/go-eth2-client/spec/altair"
	"github.com/attestantio/go-eth2-client/spec/phase0"
	specqbft "github.com/bloxapp/ssv-spec/qbft"
	spectypes "github.com/bloxapp/ssv-spec/types"
	ssz "github.com/ferranbt/fastssz"
	"go.uber.org/zap"

	"github.com/bloxapp/ssv/protocol/v2/qbft"
	"github.com/bloxapp/ssv/protocol/v2/qbft/controller"
)

// aggregates: SSZ replaced by a token that names the object
var zzAggs []*phase0.AggregateAndProof

func zzAggMarshal(a *phase0.AggregateAndProof) ([]byte, error) {
	for i, x := range zzAggs {
		if x == a {
			return []byte{0xA9, byte(i + 1)}, nil
		}
	}
	zzAggs = append(zzAggs, a)
	return []byte{0xA9, byte(len(zzAggs))}, nil
}
func zzGetAggData(cd *spectypes.ConsensusData) (*phase0.AggregateAndProof, error) {
	if len(cd.DataSSZ) != 2 || cd.DataSSZ[0] != 0xA9 || cd.DataSSZ[1] == 0 || int(cd.DataSSZ[1]) > len(zzAggs) {
		return nil, errors.New("zz: undecodable aggregate")
	}
	return zzAggs[cd.DataSSZ[1]-1], nil
}

type zzGRig struct {
	zzRRig
	run  Runner
	role spectypes.BeaconRole
}

func zzNewGRig(n int, own spectypes.OperatorID, role spectypes.BeaconRole) *zzGRig {
	g := &zzGRig{role: role}
	g.n, g.share, g.net, g.km, g.store, g.lg, g.valOK = n, zzShareFor(n, own), &zzNet{}, &zzKM{own: byte(own)}, &zzStore{}, zap.NewNop(), true
	g.bn = &zzBN{}
	valCheck := func(d []byte) error {
		g.valLog = append(g.valLog, d)
		if g.valOK {
			return nil
		}
		return errors.New("bad value")
	}
	mid := spectypes.NewMsgID(spectypes.DomainType{0, 0, 3, 1}, g.share.ValidatorPubKey, role)
	g.id = mid[:]
	cfg := &qbft.Config{Signer: g.km, Domain: spectypes.DomainType{0, 0, 3, 1}, ValueCheckF: valCheck,
		ProposerF: func(s *specqbft.State, r specqbft.Round) spectypes.OperatorID { return specqbft.RoundRobinProposer(s, r) },
		Network:   g.net, Timer: zzTimer{}, Storage: g.store, SignatureVerification: true}
	g.ctrl = controller.NewController(g.id, g.share, cfg, false)
	if role == spectypes.BNRoleSyncCommitteeContribution {
		g.run = NewSyncCommitteeAggregatorRunner(spectypes.PraterNetwork, g.share, g.ctrl, g.bn, g.net, g.km, valCheck, 0)
	} else if role == spectypes.BNRoleAggregator {
		g.run = NewAggregatorRunner(spectypes.PraterNetwork, g.share, g.ctrl, g.bn, g.net, g.km, valCheck, 0)
	} else {
		g.run = NewSyncCommitteeRunner(spectypes.PraterNetwork, g.share, g.ctrl, g.bn, g.net, g.km, valCheck, 0)
	}
	return g
}

func zzPartial(t spectypes.PartialSigMsgType, slot phase0.Slot, signer spectypes.OperatorID, sig []byte, root [32]byte) *spectypes.SignedPartialSignatureMessage {
	return &spectypes.SignedPartialSignatureMessage{Signer: signer, Signature: zzSigBy(byte(signer), [32]byte{0x50}),
		Message: spectypes.PartialSignatureMessages{Type: t, Slot: slot,
			Messages: []*spectypes.PartialSignatureMessage{{PartialSignature: sig, SigningRoot: root, Signer: signer}}}}
}

// is the logged signing event the post-consensus signature over the decided object `want`?
func zzPostSigOver(ev zzSigEvent, role spectypes.BeaconRole, wantAgg *phase0.AggregateAndProof, wantRoot phase0.Root) bool {
	if role == spectypes.BNRoleAggregator {
		return ev.domain == spectypes.DomainAggregateAndProof && ev.obj == ssz.HashRoot(wantAgg)
	}
	b, ok := ev.obj.(spectypes.SSZBytes)
	if !ok || ev.domain != spectypes.DomainSyncCommittee || len(b) != 32 {
		return false
	}
	for i := 0; i < 32; i++ {
		if b[i] != wantRoot[i] {
			return false
		}
	}
	return true
}

// ZZHarnessRoleFlow. Params: ROLE (1 sync committee, 2 aggregator), N, OWN, EARLY certificates before consensus
// runs (aggregator only), PRE (1: the selection-proof shares are symbolic), K decided certificates, M post-consensus
// shares.
//   - duty start: the sync-committee runner makes no validator-key signature; the aggregator makes exactly one, the
//     selection proof over the duty's slot
//   - aggregator: certificates that arrive while selection proofs are still collected cause no signature; the beacon
//     node is asked for the aggregate with a selection proof that verifies under the validator key
//   - K decided certificates (heights around the duty, own or another value, value check accepting or not, replays):
//     at most one post-consensus signature, inside ProcessConsensus, for the duty height, over the object in the
//     decided value, after the value check accepted exactly those bytes
//   - M post-consensus shares in any order with <= f misbehaving members: at most one submission, of the decided
//     object, with a signature valid under the validator key over its root, and a submission once 2f+1 valid shares
//     have arrived
func ZZHarnessRoleFlow() {
	n := int(zzParam("N"))
	k := int(zzParam("K"))
	mcount := int(zzParam("M"))
	own := zzCommitteeIDs[n][int(zzParam("OWN"))]
	role := spectypes.BNRoleSyncCommittee
	if zzParam("ROLE") == 2 {
		role = spectypes.BNRoleAggregator
	}
	isAgg := role == spectypes.BNRoleAggregator
	g := zzNewGRig(n, own, role)
	members := zzCommitteeIDs[n]
	f := (n - 1) / 3
	q := 2*f + 1
	H := phase0.Slot(3)
	if k > 0 {
		H = phase0.Slot(zzNondetRange("dutySlot", 1, 5))
	}
	epoch := spectypes.PraterNetwork.EstimatedEpochAtSlot(H)
	duty := &spectypes.Duty{Type: role, Slot: H, ValidatorIndex: 7, CommitteeIndex: 2, CommitteeLength: 4}
	// the objects the beacon node hands out / peers may decide on
	ownAgg := &phase0.AggregateAndProof{AggregatorIndex: 7, Aggregate: &phase0.Attestation{Data: &phase0.AttestationData{Slot: H}}}
	otherAgg := &phase0.AggregateAndProof{AggregatorIndex: 7, Aggregate: &phase0.Attestation{Data: &phase0.AttestationData{Slot: H}}}
	otherAgg.SelectionProof[0] = 0x99
	var ownRoot, otherRoot phase0.Root
	ownRoot[0], ownRoot[1] = 0x51, 0x01
	otherRoot[0], otherRoot[1] = 0x52, 0x02
	g.bn.agg, g.bn.syncRoot = ownAgg, ownRoot
	var ownSSZ, otherSSZ []byte
	ver := spec.DataVersionPhase0
	if isAgg {
		ownSSZ, _ = zzAggMarshal(ownAgg)
		otherSSZ, _ = zzAggMarshal(otherAgg)
	} else {
		ownSSZ, otherSSZ = ownRoot[:], otherRoot[:]
	}
	ownValue, _ := zzCDEncode(&spectypes.ConsensusData{Duty: *duty, Version: ver, DataSSZ: ownSSZ})
	otherValue, _ := zzCDEncode(&spectypes.ConsensusData{Duty: *duty, Version: ver, DataSSZ: otherSSZ})

	zzPhase = 1
	err := g.run.StartNewDuty(g.lg, duty)
	zzPhase = 0
	zzAssume(err == nil)
	npre := 0
	var selRoot [32]byte
	if isAgg {
		ds, _ := g.bn.DomainData(epoch, spectypes.DomainSelectionProof)
		selRoot, _ = zzETHSigningRoot(spectypes.SSZUint64(H), ds)
		zzAssert(len(g.km.sigs) == 1 && g.km.sigs[0].domain == spectypes.DomainSelectionProof && g.km.sigs[0].root == selRoot, "one-selection-proof-signature-for-the-duty-slot-at-duty-start")
		npre = 1
		// ---- certificates arriving while the selection proofs are still collected: no running instance yet
		for e := 0; e < int(zzParam("EARLY")); e++ {
			h := specqbft.Height(uint64(H) + zzNondetRange("earlyDh", 0, 2) - 1)
			zzPhase = 2
			_ = g.run.ProcessConsensus(g.lg, g.decided(h, 1, ownValue, q+zzChoose("earlyExtraSigners", 2)))
			zzPhase = 0
			zzReach("early-certificate")
			zzAssert(len(g.km.sigs) == 1, "no-signature-for-a-decision-that-arrives-before-consensus-started")
		}
		// ---- pre-consensus
		if zzParam("PRE") == 1 {
			bad := map[spectypes.OperatorID]bool{}
			validFrom := map[spectypes.OperatorID]bool{}
			for step := 0; step < q+1; step++ {
				signer := members[zzChoose("preSender", n)]
				sig := zzSigBy(byte(signer), selRoot)
				sig[0] = zzNondetByte("preFlag")
				valid := sig[0] == 1
				if !valid {
					bad[signer] = true
					zzAssume(len(bad) <= f)
				}
				started := g.run.GetBaseRunner().State.RunningInstance != nil
				_ = g.run.ProcessPreConsensus(g.lg, zzPartial(spectypes.SelectionProofPartialSig, H, signer, sig, selRoot))
				if valid && !started {
					validFrom[signer] = true
				}
				if len(validFrom) >= q {
					zzAssert(g.run.GetBaseRunner().State.RunningInstance != nil, "consensus-starts-once-2f+1-valid-selection-proof-shares-arrived")
				}
			}
			zzAssume(g.run.GetBaseRunner().State.RunningInstance != nil)
		} else {
			for i := 0; i < q; i++ {
				zzAssume(g.run.ProcessPreConsensus(g.lg, zzPartial(spectypes.SelectionProofPartialSig, H, members[i], zzSigBy(byte(members[i]), selRoot), selRoot)) == nil)
			}
		}
		zzAssume(len(g.bn.selProofs) >= 1)
		for _, sp := range g.bn.selProofs {
			zzAssert(zzVerifiesUnderValidatorKey(sp, selRoot), "aggregate-requested-with-a-valid-selection-proof")
		}
		zzAssert(len(g.km.sigs) == 1, "no-validator-key-signature-while-starting-consensus")
	} else {
		zzAssert(len(g.km.sigs) == 0, "no-validator-key-signature-at-sync-committee-duty-start")
	}
	zzAssert(g.run.GetBaseRunner().State.RunningInstance != nil, "consensus-instance-started")
	zzReach("consensus-started")

	// ---- consensus
	signedAtStep := -1
	decidedAgg, decidedRoot := ownAgg, ownRoot
	for step := 0; step < k; step++ {
		h := specqbft.Height(uint64(H) + zzNondetRange("dh", 0, 3) - 1)
		ns := q + zzChoose("extraSigners", 2)
		val, agg, root := ownValue, ownAgg, ownRoot
		if zzNondetBool("otherValue") {
			val, agg, root = otherValue, otherAgg, otherRoot
			g.valOK = zzNondetBool("otherValueValid")
		} else {
			g.valOK = true
		}
		m := g.decided(h, 1, val, ns)
		before := len(g.km.sigs)
		nval := len(g.valLog)
		zzPhase = 2
		perr := g.run.ProcessConsensus(g.lg, m)
		zzPhase = 0
		if len(g.km.sigs) > before {
			zzReach("signed")
			zzAssert(len(g.km.sigs) == before+1, "one-signature-per-decision")
			zzAssert(signedAtStep < 0, "second-post-consensus-signature-for-the-same-duty")
			signedAtStep = step
			decidedAgg, decidedRoot = agg, root
			zzAssert(perr == nil, "no-error-when-signing")
			zzAssert(uint64(h) == uint64(H), "signature-only-for-decision-at-the-duty-height")
			zzAssert(len(g.valLog) > nval, "value-check-ran-on-the-decided-value")
			if len(g.valLog) > nval {
				last := g.valLog[len(g.valLog)-1]
				zzAssert(len(last) == len(val) && last[1] == val[1], "value-check-ran-on-exactly-the-decided-bytes")
			}
			zzAssert(g.valOK, "signature-only-after-value-check-passed")
			zzAssert(zzPostSigOver(g.km.sigs[len(g.km.sigs)-1], role, agg, root), "signed-object-is-the-object-in-the-decided-value")
		}
	}
	if k == 0 {
		// post-consensus runs (C05): an honest decision of the duty's own value
		zzPhase = 2
		zzAssume(g.run.ProcessConsensus(g.lg, g.decided(specqbft.Height(H), 1, ownValue, q)) == nil)
		zzPhase = 0
		zzAssume(len(g.km.sigs) == npre+1)
		signedAtStep = 0
		zzReach("signed")
	}
	for _, ev := range g.km.sigs[npre:] {
		zzAssert(ev.phase == 2 && zzPostSigOver(ev, role, decidedAgg, decidedRoot), "post-consensus-signature-only-inside-ProcessConsensus-over-the-decided-object")
	}
	zzAssert(len(g.km.sigs) <= npre+1, "at-most-one-post-consensus-signature")
	if mcount == 0 || signedAtStep < 0 {
		zzReach("end")
		return
	}

	// ---- post-consensus
	var root [32]byte
	if isAgg {
		dp, _ := g.bn.DomainData(epoch, spectypes.DomainAggregateAndProof)
		root, _ = zzETHSigningRoot(decidedAgg, dp)
	} else {
		dp, _ := g.bn.DomainData(epoch, spectypes.DomainSyncCommittee)
		root, _ = zzETHSigningRoot(spectypes.SSZBytes(decidedRoot[:]), dp)
	}
	nsigs := len(g.km.sigs)
	bad := map[spectypes.OperatorID]bool{}
	validFrom := map[spectypes.OperatorID]bool{}
	for step := 0; step < mcount; step++ {
		signer := members[zzChoose("sender", n)]
		sig := zzSigBy(byte(signer), root)
		sig[0] = zzNondetByte("shareFlag")
		sig[1] = zzNondetByte("shareKey")
		valid := sig[0] == 1 && sig[1] == byte(signer)
		if !valid {
			bad[signer] = true
			zzAssume(len(bad) <= f)
		}
		before := len(g.bn.aggSubmits) + len(g.bn.syncSubmits)
		wasFinished := g.run.GetBaseRunner().State.Finished
		_ = g.run.ProcessPostConsensus(g.lg, zzPartial(spectypes.PostConsensusPartialSig, H, signer, sig, root))
		if valid && !wasFinished {
			validFrom[signer] = true
		}
		nsub := len(g.bn.aggSubmits) + len(g.bn.syncSubmits)
		if nsub > before {
			zzReach("submitted")
			zzAssert(!wasFinished, "no-submission-after-finished")
			zzAssert(nsub == 1, "at-most-one-submission-per-decided-object")
			if isAgg {
				zzAssert(len(g.bn.aggSubmits) == 1 && g.bn.aggSubmits[0].Message == decidedAgg, "submitted-object-is-the-decided-aggregate")
				if len(g.bn.aggSubmits) == 1 {
					zzAssert(zzVerifiesUnderValidatorKey(g.bn.aggSubmits[0].Signature[:], root), "submitted-signature-verifies-under-validator-key-over-decided-root")
				}
			} else {
				zzAssert(len(g.bn.syncSubmits) == 1, "submitted-object-is-a-sync-committee-message")
				if len(g.bn.syncSubmits) == 1 {
					sm := g.bn.syncSubmits[0]
					zzAssert(sm.BeaconBlockRoot == decidedRoot && sm.Slot == H && sm.ValidatorIndex == 7, "submitted-object-is-the-decided-block-root-for-the-duty-slot-and-validator")
					zzAssert(zzVerifiesUnderValidatorKey(sm.Signature[:], root), "submitted-signature-verifies-under-validator-key-over-decided-root")
				}
			}
			zzAssert(valid, "invalid-share-never-triggers-a-submission")
		}
		if len(validFrom) >= q {
			zzReach("quorum-of-valid-shares")
			zzAssert(nsub == 1, "submission-happens-once-2f+1-valid-shares-arrived")
		}
		zzAssert(len(g.km.sigs) == nsigs, "no-validator-key-signature-in-post-consensus")
	}
	zzReach("end")
}

// ---- sync-committee contribution role (several roots per partial-signature message)

// contribution lists: SSZ replaced by a token that names the object
var zzContribLists []*spectypes.Contributions

func zzContribsMarshal(c *spectypes.Contributions) ([]byte, error) {
	for i, x := range zzContribLists {
		if x == c {
			return []byte{0xAC, byte(i + 1)}, nil
		}
	}
	zzContribLists = append(zzContribLists, c)
	return []byte{0xAC, byte(len(zzContribLists))}, nil
}
func zzGetContribs(cd *spectypes.ConsensusData) (spectypes.Contributions, error) {
	if len(cd.DataSSZ) != 2 || cd.DataSSZ[0] != 0xAC || cd.DataSSZ[1] == 0 || int(cd.DataSSZ[1]) > len(zzContribLists) {
		return nil, errors.New("zz: undecodable contributions")
	}
	return *zzContribLists[cd.DataSSZ[1]-1], nil
}

func zzMkContribs(slot phase0.Slot, subnets []uint64, tag byte) *spectypes.Contributions {
	cs := spectypes.Contributions{}
	for _, sn := range subnets {
		c := &spectypes.Contribution{Contribution: altair.SyncCommitteeContribution{Slot: slot, SubcommitteeIndex: sn}}
		c.Contribution.BeaconBlockRoot[0] = tag + byte(16*len(cs))
		c.SelectionProofSig[0], c.SelectionProofSig[1] = 1, byte(sn)
		cs = append(cs, c)
	}
	return &cs
}

func zzMultiPartial(t spectypes.PartialSigMsgType, slot phase0.Slot, signer spectypes.OperatorID, sigs [][]byte, roots [][32]byte) *spectypes.SignedPartialSignatureMessage {
	m := &spectypes.SignedPartialSignatureMessage{Signer: signer, Signature: zzSigBy(byte(signer), [32]byte{0x50}),
		Message: spectypes.PartialSignatureMessages{Type: t, Slot: slot}}
	for i := range sigs {
		m.Message.Messages = append(m.Message.Messages, &spectypes.PartialSignatureMessage{PartialSignature: sigs[i], SigningRoot: roots[i], Signer: signer})
	}
	return m
}

// does the logged signing event sign the contribution-and-proof of decided contribution c for validator 7?
func zzSignsContribution(ev zzSigEvent, c *spectypes.Contribution) bool {
	o, ok := ev.obj.(*altair.ContributionAndProof)
	return ok && ev.domain == spectypes.DomainContributionAndProof && o.AggregatorIndex == 7 && o.Contribution != nil &&
		o.Contribution.Slot == c.Contribution.Slot && o.Contribution.SubcommitteeIndex == c.Contribution.SubcommitteeIndex &&
		o.Contribution.BeaconBlockRoot == c.Contribution.BeaconBlockRoot && o.SelectionProof == phase0.BLSSignature(c.SelectionProofSig)
}

// ZZHarnessContributionFlow: the real SyncCommitteeAggregatorRunner. Params: N, OWN, NIDX (1 or 2 sync-committee
// seats, i.e. roots per message), AGGR (1: the first seat's proof may turn out not to select the validator), PRE, K, M.
//   - duty start: exactly one selection-proof signature per seat, over (slot, subcommittee)
//   - contributions are requested once, for exactly the seats whose proof selects the validator, each with a proof valid
//     under the validator key
//   - K decided certificates: at most one batch of post-consensus signatures, inside ProcessConsensus, for the duty
//     height, one per contribution of the decided value and over exactly it, after the value check accepted those bytes
//   - M post-consensus messages (one share per root, each symbolic) in any order with <= f misbehaving members: every
//     submission is a decided contribution with a signature valid under the validator key over its root, each at most
//     once, and once 2f+1 members have sent messages whose shares are all valid every decided contribution is submitted
func ZZHarnessContributionFlow() {
	n := int(zzParam("N"))
	k := int(zzParam("K"))
	mcount := int(zzParam("M"))
	nidx := int(zzParam("NIDX"))
	own := zzCommitteeIDs[n][int(zzParam("OWN"))]
	role := spectypes.BNRoleSyncCommitteeContribution
	g := zzNewGRig(n, own, role)
	members := zzCommitteeIDs[n]
	f := (n - 1) / 3
	q := 2*f + 1
	H := phase0.Slot(3) // concrete: the runner sorts the expected roots, which carry the slot
	epoch := spectypes.PraterNetwork.EstimatedEpochAtSlot(H)
	seats := []uint64{1, 3}[:nidx]
	duty := &spectypes.Duty{Type: role, Slot: H, ValidatorIndex: 7, ValidatorSyncCommitteeIndices: seats}
	g.bn.notAggregator = map[byte]bool{}
	selected := seats
	if zzParam("AGGR") == 1 && nidx == 2 && zzNondetBool("firstSeatNotSelected") {
		g.bn.notAggregator[byte(seats[0])] = true
		selected = seats[1:]
	}
	own1 := zzMkContribs(H, selected, 0x51)
	// the other value peers may decide on: different contributions, all for ONE subcommittee (nothing in the value check
	// forbids that; each is still a distinct decided object)
	otherSubnets := make([]uint64, len(selected))
	for i := range otherSubnets {
		otherSubnets[i] = selected[0]
	}
	other := zzMkContribs(H, otherSubnets, 0x52)
	g.bn.contribs = own1
	ownSSZ, _ := zzContribsMarshal(own1)
	otherSSZ, _ := zzContribsMarshal(other)
	ownValue, _ := zzCDEncode(&spectypes.ConsensusData{Duty: *duty, Version: spec.DataVersionPhase0, DataSSZ: ownSSZ})
	otherValue, _ := zzCDEncode(&spectypes.ConsensusData{Duty: *duty, Version: spec.DataVersionPhase0, DataSSZ: otherSSZ})

	zzPhase = 1
	err := g.run.StartNewDuty(g.lg, duty)
	zzPhase = 0
	zzAssume(err == nil)
	ds, _ := g.bn.DomainData(epoch, spectypes.DomainSyncCommitteeSelectionProof)
	selRoots := make([][32]byte, nidx)
	zzAssert(len(g.km.sigs) == nidx, "one-selection-proof-signature-per-seat-at-duty-start")
	for i, seat := range seats {
		selRoots[i], _ = zzETHSigningRoot(&altair.SyncAggregatorSelectionData{Slot: H, SubcommitteeIndex: seat}, ds)
		if i < len(g.km.sigs) {
			zzAssert(g.km.sigs[i].domain == spectypes.DomainSyncCommitteeSelectionProof && g.km.sigs[i].root == selRoots[i], "selection-proof-signature-is-over-the-duty-slot-and-the-seat's-subcommittee")
		}
	}
	npre := nidx

	// ---- pre-consensus
	st := g.run.GetBaseRunner().State
	if zzParam("PRE") == 1 {
		bad := map[spectypes.OperatorID]bool{}
		validFrom := map[spectypes.OperatorID]bool{}
		honestPre := int(zzParam("HONEST")) // the first HONEST messages are valid ones of distinct members (bounds the search)
		for step := 0; step < q+1; step++ {
			var signer spectypes.OperatorID
			if step < honestPre {
				signer = members[(int(zzParam("OWN"))+1+step)%n]
			} else {
				signer = members[zzChoose("preSender", n)]
			}
			sigs := make([][]byte, nidx)
			valid := true
			for i := range seats {
				sigs[i] = zzSigBy(byte(signer), selRoots[i])
				if step >= honestPre {
					sigs[i][0] = zzNondetByte("preFlag")
				}
				valid = valid && sigs[i][0] == 1
			}
			if !valid {
				bad[signer] = true
				zzAssume(len(bad) <= f)
			}
			started := st.RunningInstance != nil
			_ = g.run.ProcessPreConsensus(g.lg, zzMultiPartial(spectypes.ContributionProofs, H, signer, sigs, selRoots))
			if valid && !started {
				validFrom[signer] = true
			}
			if len(validFrom) >= q {
				zzAssert(st.RunningInstance != nil, "consensus-starts-once-2f+1-valid-contribution-proof-messages-arrived")
			}
		}
		zzAssume(st.RunningInstance != nil)
	} else {
		for i := 0; i < q; i++ {
			sigs := make([][]byte, nidx)
			for j := range seats {
				sigs[j] = zzSigBy(byte(members[i]), selRoots[j])
			}
			zzAssume(g.run.ProcessPreConsensus(g.lg, zzMultiPartial(spectypes.ContributionProofs, H, members[i], sigs, selRoots)) == nil)
		}
	}
	zzAssume(len(g.bn.contribProofs) >= 1)
	for ri, proofs := range g.bn.contribProofs {
		subnets := g.bn.contribSubnets[ri]
		zzAssert(len(proofs) == len(selected) && len(subnets) == len(selected), "contributions-requested-for-exactly-the-selected-seats")
		for j := 0; j < len(proofs) && j < len(selected); j++ {
			var want [32]byte
			for i, seat := range seats {
				if seat == selected[j] {
					want = selRoots[i]
				}
			}
			zzAssert(subnets[j] == selected[j] && zzVerifiesUnderValidatorKey(proofs[j][:], want), "contribution-requested-with-a-valid-selection-proof-for-its-subcommittee")
		}
	}
	zzAssert(st.RunningInstance != nil, "consensus-instance-started")
	zzAssert(len(g.km.sigs) == npre, "no-validator-key-signature-while-starting-consensus")
	zzReach("consensus-started")

	// ---- consensus
	signedAtStep := -1
	decided := own1
	for step := 0; step < k; step++ {
		h := specqbft.Height(uint64(H) + zzNondetRange("dh", 0, 3) - 1)
		ns := q + zzChoose("extraSigners", 2)
		val, cs := ownValue, own1
		if zzNondetBool("otherValue") {
			val, cs = otherValue, other
			g.valOK = zzNondetBool("otherValueValid")
		} else {
			g.valOK = true
		}
		m := g.decided(h, 1, val, ns)
		before := len(g.km.sigs)
		nval := len(g.valLog)
		zzPhase = 2
		perr := g.run.ProcessConsensus(g.lg, m)
		zzPhase = 0
		if len(g.km.sigs) > before {
			zzReach("signed")
			zzAssert(len(g.km.sigs) == before+len(*cs), "one-signature-per-decided-contribution")
			zzAssert(signedAtStep < 0, "second-post-consensus-signature-for-the-same-duty")
			signedAtStep = step
			decided = cs
			zzAssert(perr == nil, "no-error-when-signing")
			zzAssert(uint64(h) == uint64(H), "signature-only-for-decision-at-the-duty-height")
			zzAssert(len(g.valLog) > nval, "value-check-ran-on-the-decided-value")
			if len(g.valLog) > nval {
				last := g.valLog[len(g.valLog)-1]
				zzAssert(len(last) == len(val) && last[1] == val[1], "value-check-ran-on-exactly-the-decided-bytes")
			}
			zzAssert(g.valOK, "signature-only-after-value-check-passed")
		}
	}
	if k == 0 {
		zzPhase = 2
		zzAssume(g.run.ProcessConsensus(g.lg, g.decided(specqbft.Height(H), 1, ownValue, q)) == nil)
		zzPhase = 0
		zzAssume(len(g.km.sigs) == npre+len(*decided))
		signedAtStep = 0
		zzReach("signed")
	}
	zzAssert(len(g.km.sigs) <= npre+len(*decided), "at-most-one-post-consensus-signature-per-decided-contribution")
	for i, ev := range g.km.sigs[npre:] {
		zzAssert(ev.phase == 2 && i < len(*decided) && zzSignsContribution(ev, (*decided)[i]), "post-consensus-signature-only-inside-ProcessConsensus-over-a-decided-contribution")
	}
	if mcount == 0 || signedAtStep < 0 {
		zzReach("end")
		return
	}

	// ---- post-consensus
	dp, _ := g.bn.DomainData(epoch, spectypes.DomainContributionAndProof)
	nroots := len(*decided)
	roots := make([][32]byte, nroots)
	for i, c := range *decided {
		cc := c.Contribution
		roots[i], _ = zzETHSigningRoot(&altair.ContributionAndProof{AggregatorIndex: 7, Contribution: &cc, SelectionProof: phase0.BLSSignature(c.SelectionProofSig)}, dp)
	}
	nsigs := len(g.km.sigs)
	bad := map[spectypes.OperatorID]bool{}
	validFrom := map[spectypes.OperatorID]bool{}
	honest := int(zzParam("HONEST")) // the first HONEST messages are valid ones of distinct members (bounds the search)
	for step := 0; step < honest+mcount; step++ {
		var signer spectypes.OperatorID
		if step < honest {
			signer = members[(int(zzParam("OWN"))+1+step)%n]
		} else {
			signer = members[zzChoose("sender", n)]
		}
		sigs := make([][]byte, nroots)
		valid := true
		for i := range roots {
			sigs[i] = zzSigBy(byte(signer), roots[i])
			if step >= honest {
				sigs[i][0] = zzNondetByte("shareFlag")
			}
			valid = valid && sigs[i][0] == 1
		}
		if !valid {
			bad[signer] = true
			zzAssume(len(bad) <= f)
		}
		before := len(g.bn.contribSubmits)
		wasFinished := st.Finished
		msgRoots := roots
		if nroots == 2 && step == honest+mcount-1 && zzNondetBool("sharesListedInReverseOrder") {
			// any order of the inner shares is a well-formed message
			sigs, msgRoots = [][]byte{sigs[1], sigs[0]}, [][32]byte{roots[1], roots[0]}
			zzReach("reverse-order")
		}
		_ = g.run.ProcessPostConsensus(g.lg, zzMultiPartial(spectypes.PostConsensusPartialSig, H, signer, sigs, msgRoots))
		if valid && !wasFinished {
			validFrom[signer] = true
		}
		if len(g.bn.contribSubmits) > before {
			zzReach("submitted")
			zzAssert(!wasFinished, "no-submission-after-finished")
		}
		perRoot := make([]int, nroots)
		for _, sc := range g.bn.contribSubmits {
			hit := -1
			for i, c := range *decided {
				if sc.Message != nil && sc.Message.Contribution != nil && sc.Message.AggregatorIndex == 7 && sc.Message.Contribution.SubcommitteeIndex == c.Contribution.SubcommitteeIndex &&
					sc.Message.Contribution.BeaconBlockRoot == c.Contribution.BeaconBlockRoot && sc.Message.SelectionProof == phase0.BLSSignature(c.SelectionProofSig) {
					hit = i
				}
			}
			zzAssert(hit >= 0, "submitted-object-is-a-decided-contribution")
			if hit >= 0 {
				perRoot[hit]++
				zzAssert(zzVerifiesUnderValidatorKey(sc.Signature[:], roots[hit]), "submitted-signature-verifies-under-validator-key-over-decided-root")
			}
		}
		all := true
		for i := range perRoot {
			zzAssert(perRoot[i] <= 1, "at-most-one-submission-per-decided-object")
			all = all && perRoot[i] == 1
		}
		if len(validFrom) >= q {
			zzReach("quorum-of-valid-shares")
			zzAssert(all, "every-decided-contribution-submitted-once-2f+1-valid-messages-arrived")
		}
		zzAssert(len(g.km.sigs) == nsigs, "no-validator-key-signature-in-post-consensus")
	}
	zzReach("end")
}

// ZZHarnessContributionTwoDuties (C03): duty A (slot 3) runs to its post-consensus signatures; duty B (a later slot)
// starts, collects its selection proofs and its instance decides. The value decided for B is any list of
// contributions - the beacon node's, or other ones - under B's duty or (nothing in the value check ties the duty slot
// inside the value to the instance height) under A's duty again. Whatever it is, the post-consensus signatures made
// for B are over the contributions of exactly that decided value, one each.
func ZZHarnessContributionTwoDuties() {
	n := int(zzParam("N"))
	own := zzCommitteeIDs[n][int(zzParam("OWN"))]
	role := spectypes.BNRoleSyncCommitteeContribution
	g := zzNewGRig(n, own, role)
	members := zzCommitteeIDs[n]
	q := 2*((n-1)/3) + 1
	seats := []uint64{1, 3}
	g.bn.notAggregator = map[byte]bool{}
	HA := phase0.Slot(3)
	HB := HA + phase0.Slot(1+31*zzChoose("gap", 2)) // the next slot or a slot of the next epoch (concrete: the runner sorts roots that carry the slot)
	runDuty := func(H phase0.Slot, value func(d *spectypes.Duty) ([]byte, *spectypes.Contributions)) (*spectypes.Contributions, int) {
		duty := &spectypes.Duty{Type: role, Slot: H, ValidatorIndex: 7, ValidatorSyncCommitteeIndices: seats}
		g.bn.contribs = zzMkContribs(H, seats, 0x51)
		zzContribsMarshal(g.bn.contribs)
		zzAssume(g.run.StartNewDuty(g.lg, duty) == nil)
		epoch := spectypes.PraterNetwork.EstimatedEpochAtSlot(H)
		ds, _ := g.bn.DomainData(epoch, spectypes.DomainSyncCommitteeSelectionProof)
		selRoots := make([][32]byte, len(seats))
		for i, seat := range seats {
			selRoots[i], _ = zzETHSigningRoot(&altair.SyncAggregatorSelectionData{Slot: H, SubcommitteeIndex: seat}, ds)
		}
		for i := 0; i < q; i++ {
			sigs := make([][]byte, len(seats))
			for j := range seats {
				sigs[j] = zzSigBy(byte(members[i]), selRoots[j])
			}
			zzAssume(g.run.ProcessPreConsensus(g.lg, zzMultiPartial(spectypes.ContributionProofs, H, members[i], sigs, selRoots)) == nil)
		}
		zzAssume(g.run.GetBaseRunner().State.RunningInstance != nil)
		val, cs := value(duty)
		before := len(g.km.sigs)
		zzPhase = 2
		zzAssume(g.run.ProcessConsensus(g.lg, g.decided(specqbft.Height(H), 1, val, q)) == nil)
		zzPhase = 0
		return cs, before
	}
	var dutyA *spectypes.Duty
	csA, beforeA := runDuty(HA, func(d *spectypes.Duty) ([]byte, *spectypes.Contributions) {
		dutyA = d
		ssz, _ := zzContribsMarshal(g.bn.contribs)
		v, _ := zzCDEncode(&spectypes.ConsensusData{Duty: *d, Version: spec.DataVersionPhase0, DataSSZ: ssz})
		return v, g.bn.contribs
	})
	zzAssume(len(g.km.sigs) == beforeA+len(*csA))
	zzReach("first-duty-signed")
	csB, beforeB := runDuty(HB, func(d *spectypes.Duty) ([]byte, *spectypes.Contributions) {
		cs := g.bn.contribs
		if zzNondetBool("otherContributions") {
			cs = zzMkContribs(HB, seats, 0x52)
		}
		in := *d
		if zzNondetBool("valueNamesTheEarlierDuty") {
			in = *dutyA
			zzReach("value-names-the-earlier-duty")
		}
		ssz, _ := zzContribsMarshal(cs)
		v, _ := zzCDEncode(&spectypes.ConsensusData{Duty: in, Version: spec.DataVersionPhase0, DataSSZ: ssz})
		return v, cs
	})
	newSigs := g.km.sigs[beforeB:]
	zzAssert(len(newSigs) == len(*csB), "second-duty-one-signature-per-decided-contribution")
	for j, ev := range newSigs {
		zzAssert(ev.phase == 2 && j < len(*csB) && zzSignsContribution(ev, (*csB)[j]), "post-consensus-signature-is-over-a-contribution-of-the-value-decided-for-this-duty")
	}
	zzReach("end")
}
