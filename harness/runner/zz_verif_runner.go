package runner

// Runner rig (C03, C05): a real AttesterRunner over a real Controller/Instance; beacon node, network,
// key manager and store are contract-only fakes; BLS is the engine's model; SSZ/JSON codecs are identity
// codecs wired through the check's redirect table.

import (
	"errors"

	"github.com/attestantio/go-eth2-client/api"
	eth2apiv1 "github.com/attestantio/go-eth2-client/api/v1"
	"github.com/attestantio/go-eth2-client/spec"
	"github.com/attestantio/go-eth2-client/spec/altair"
	"github.com/attestantio/go-eth2-client/spec/bellatrix"
	"github.com/attestantio/go-eth2-client/spec/capella"
	"github.com/attestantio/go-eth2-client/spec/phase0"
	specqbft "github.com/bloxapp/ssv-spec/qbft"
	spectypes "github.com/bloxapp/ssv-spec/types"
	ssz "github.com/ferranbt/fastssz"
	"github.com/herumi/bls-eth-go-binary/bls"
	"go.uber.org/zap"

	"github.com/bloxapp/ssv/protocol/v2/qbft"
	"github.com/bloxapp/ssv/protocol/v2/qbft/controller"
	qbftstorage "github.com/bloxapp/ssv/protocol/v2/qbft/storage"
)

type zzTimer struct{}

func (zzTimer) TimeoutForRound(h specqbft.Height, r specqbft.Round) {}

// ---- key manager: logs every validator-key signature

type zzSigEvent struct {
	domain phase0.DomainType
	obj    ssz.HashRoot
	root   [32]byte
	phase  int // harness phase marker at signing time
}

type zzKM struct {
	own  byte
	sigs []zzSigEvent
}

var zzPhase int

func (k *zzKM) SignBeaconObject(obj ssz.HashRoot, domain phase0.Domain, pk []byte, domainType phase0.DomainType) (spectypes.Signature, [32]byte, error) {
	r, _ := zzETHSigningRoot(obj, domain)
	k.sigs = append(k.sigs, zzSigEvent{domain: domainType, obj: obj, root: r, phase: zzPhase})
	return zzSigBy(pk[0], r), r, nil
}
func (k *zzKM) IsAttestationSlashable(pk []byte, data *phase0.AttestationData) error { return nil }
func (k *zzKM) IsBeaconBlockSlashable(pk []byte, slot phase0.Slot) error              { return nil }
func (k *zzKM) SignRoot(data spectypes.Root, sigType spectypes.SignatureType, pk []byte) (spectypes.Signature, error) {
	r, err := data.GetRoot()
	if err != nil {
		return nil, err
	}
	return zzSigBy(pk[0], r), nil
}
func (k *zzKM) AddShare(shareKey *bls.SecretKey) error { return nil }
func (k *zzKM) RemoveShare(pubKey string) error        { return nil }

// ---- store

type zzStore struct{ saved []*qbftstorage.StoredInstance }

func (s *zzStore) GetHighestInstance(id []byte) (*qbftstorage.StoredInstance, error) { return nil, nil }
func (s *zzStore) GetInstancesInRange(id []byte, from, to specqbft.Height) ([]*qbftstorage.StoredInstance, error) {
	return nil, nil
}
func (s *zzStore) SaveInstance(i *qbftstorage.StoredInstance) error        { s.saved = append(s.saved, i); return nil }
func (s *zzStore) SaveHighestInstance(i *qbftstorage.StoredInstance) error { s.saved = append(s.saved, i); return nil }
func (s *zzStore) SaveHighestAndHistoricalInstance(i *qbftstorage.StoredInstance) error {
	s.saved = append(s.saved, i)
	return nil
}
func (s *zzStore) GetInstance(id []byte, h specqbft.Height) (*qbftstorage.StoredInstance, error) {
	return nil, nil
}
func (s *zzStore) CleanAllInstances(l *zap.Logger, id []byte) error { return nil }

// ---- beacon node

type zzBN struct {
	att     *phase0.AttestationData
	submits []*phase0.Attestation
	regs    []phase0.BLSSignature
	exits   []*phase0.SignedVoluntaryExit
	blk     *capella.BeaconBlock
	randaos [][]byte // RANDAO reveals the beacon node was given
	blocks  []zzBlockSubmit
	// aggregator / sync-committee roles
	agg         *phase0.AggregateAndProof
	selProofs   [][]byte // selection proofs the beacon node was given
	aggSubmits  []*phase0.SignedAggregateAndProof
	syncRoot    phase0.Root
	syncSubmits []*altair.SyncCommitteeMessage
	// sync-committee contribution role
	contribs       *spectypes.Contributions
	contribProofs  [][]phase0.BLSSignature // selection proofs the beacon node was given, per request
	contribSubnets [][]uint64
	contribSubmits []*altair.SignedContributionAndProof
	notAggregator  map[byte]bool // selection proofs (by subnet id in the model root) that do not make the validator an aggregator
}

type zzBlockSubmit struct {
	blk *api.VersionedProposal
	sig phase0.BLSSignature
}

func (b *zzBN) GetBeaconNetwork() spectypes.BeaconNetwork { return spectypes.PraterNetwork }
func (b *zzBN) GetAttestationData(slot phase0.Slot, ci phase0.CommitteeIndex) (ssz.Marshaler, spec.DataVersion, error) {
	return b.att, spec.DataVersionPhase0, nil
}
func (b *zzBN) SubmitAttestation(a *phase0.Attestation) error { b.submits = append(b.submits, a); return nil }
func (b *zzBN) GetBeaconBlock(slot phase0.Slot, g, r []byte) (ssz.Marshaler, spec.DataVersion, error) {
	b.randaos = append(b.randaos, r)
	if b.blk == nil {
		return nil, 0, errors.New("zz: no block")
	}
	return b.blk, spec.DataVersionCapella, nil
}
func (b *zzBN) GetBlindedBeaconBlock(slot phase0.Slot, g, r []byte) (ssz.Marshaler, spec.DataVersion, error) {
	return nil, 0, nil
}
func (b *zzBN) SubmitBeaconBlock(block *api.VersionedProposal, sig phase0.BLSSignature) error {
	b.blocks = append(b.blocks, zzBlockSubmit{block, sig})
	return nil
}
func (b *zzBN) SubmitBlindedBeaconBlock(block *api.VersionedBlindedProposal, sig phase0.BLSSignature) error {
	return nil
}
func (b *zzBN) SubmitAggregateSelectionProof(slot phase0.Slot, ci phase0.CommitteeIndex, cl uint64, idx phase0.ValidatorIndex, sig []byte) (ssz.Marshaler, spec.DataVersion, error) {
	b.selProofs = append(b.selProofs, sig)
	if b.agg == nil {
		return nil, 0, errors.New("zz: no aggregate")
	}
	return b.agg, spec.DataVersionPhase0, nil
}
func (b *zzBN) SubmitSignedAggregateSelectionProof(msg *phase0.SignedAggregateAndProof) error {
	b.aggSubmits = append(b.aggSubmits, msg)
	return nil
}
func (b *zzBN) GetSyncMessageBlockRoot(slot phase0.Slot) (phase0.Root, spec.DataVersion, error) {
	return b.syncRoot, spec.DataVersionPhase0, nil
}
func (b *zzBN) SubmitSyncMessage(msg *altair.SyncCommitteeMessage) error {
	b.syncSubmits = append(b.syncSubmits, msg)
	return nil
}
func (b *zzBN) IsSyncCommitteeAggregator(proof []byte) (bool, error) {
	// model signature layout: root at 16..47; the selection-data root carries the subcommittee index at [3]
	return len(proof) >= 48 && !b.notAggregator[proof[16+3]], nil
}
func (b *zzBN) SyncCommitteeSubnetID(index phase0.CommitteeIndex) (uint64, error) { return uint64(index), nil }
func (b *zzBN) GetSyncCommitteeContribution(slot phase0.Slot, sp []phase0.BLSSignature, ids []uint64) (ssz.Marshaler, spec.DataVersion, error) {
	b.contribProofs = append(b.contribProofs, sp)
	b.contribSubnets = append(b.contribSubnets, ids)
	if b.contribs == nil {
		return nil, 0, errors.New("zz: no contributions")
	}
	return b.contribs, spec.DataVersionPhase0, nil
}
func (b *zzBN) SubmitSignedContributionAndProof(c *altair.SignedContributionAndProof) error {
	b.contribSubmits = append(b.contribSubmits, c)
	return nil
}
func (b *zzBN) SubmitValidatorRegistration(pk []byte, fr bellatrix.ExecutionAddress, sig phase0.BLSSignature) error {
	b.regs = append(b.regs, sig)
	return nil
}
func (b *zzBN) SubmitVoluntaryExit(v *phase0.SignedVoluntaryExit) error {
	b.exits = append(b.exits, v)
	return nil
}
func (b *zzBN) DomainData(epoch phase0.Epoch, domain phase0.DomainType) (phase0.Domain, error) {
	var d phase0.Domain
	copy(d[:4], domain[:])
	return d, nil
}

// ---- codecs / roots (redirect targets)

// the consensus values in play (identity codec for ConsensusData): token byte = index+1
var zzCDs []*spectypes.ConsensusData

func zzCDEncode(cd *spectypes.ConsensusData) ([]byte, error) {
	for i, c := range zzCDs {
		if c == cd || (c.Duty.Slot == cd.Duty.Slot && c.Duty.Type == cd.Duty.Type && string(c.DataSSZ) == string(cd.DataSSZ) && c.Duty.ValidatorIndex == cd.Duty.ValidatorIndex &&
			c.Duty.CommitteeLength == cd.Duty.CommitteeLength && c.Duty.ValidatorCommitteeIndex == cd.Duty.ValidatorCommitteeIndex) {
			return []byte{0xCD, byte(i + 1)}, nil
		}
	}
	c := *cd
	zzCDs = append(zzCDs, &c)
	return []byte{0xCD, byte(len(zzCDs))}, nil
}
func zzCDDecode(cd *spectypes.ConsensusData, data []byte) error {
	if len(data) != 2 || data[0] != 0xCD || data[1] == 0 || int(data[1]) > len(zzCDs) {
		return errors.New("zz: undecodable consensus data")
	}
	*cd = *zzCDs[data[1]-1]
	return nil
}

// beacon blocks: SSZ replaced by a token that names the object
var zzBlks []*capella.BeaconBlock

func zzBlkMarshal(b *capella.BeaconBlock) ([]byte, error) {
	for i, x := range zzBlks {
		if x == b {
			return []byte{0xB0, byte(i + 1)}, nil
		}
	}
	zzBlks = append(zzBlks, b)
	return []byte{0xB0, byte(len(zzBlks))}, nil
}
func zzGetBlockData(cd *spectypes.ConsensusData) (*api.VersionedProposal, ssz.HashRoot, error) {
	if len(cd.DataSSZ) != 2 || cd.DataSSZ[0] != 0xB0 || cd.DataSSZ[1] == 0 || int(cd.DataSSZ[1]) > len(zzBlks) {
		return nil, nil, errors.New("zz: undecodable block")
	}
	b := zzBlks[cd.DataSSZ[1]-1]
	return &api.VersionedProposal{Capella: b, Version: cd.Version}, b, nil
}
func zzGetBlindedBlockData(cd *spectypes.ConsensusData) (*api.VersionedBlindedProposal, ssz.HashRoot, error) {
	return nil, nil, errors.New("zz: not a blinded block")
}

// attestation data: SSZ replaced by a token that names the object
var zzAtts []*phase0.AttestationData

func zzAttMarshal(a *phase0.AttestationData) ([]byte, error) {
	for i, x := range zzAtts {
		if x == a {
			return []byte{0xA7, byte(i + 1)}, nil
		}
	}
	zzAtts = append(zzAtts, a)
	return []byte{0xA7, byte(len(zzAtts))}, nil
}
func zzGetAttData(cd *spectypes.ConsensusData) (*phase0.AttestationData, error) {
	if len(cd.DataSSZ) != 2 || cd.DataSSZ[0] != 0xA7 || cd.DataSSZ[1] == 0 || int(cd.DataSSZ[1]) > len(zzAtts) {
		return nil, errors.New("zz: undecodable attestation data")
	}
	return zzAtts[cd.DataSSZ[1]-1], nil
}

// types.ComputeETHSigningRoot: injective on the objects in play (attestation data identified by slot/index/epochs)
func zzETHSigningRoot(obj ssz.HashRoot, domain phase0.Domain) ([32]byte, error) {
	var r [32]byte
	copy(r[28:], domain[:4])
	switch o := obj.(type) {
	case *phase0.AttestationData:
		r[0] = 0xA7
		r[1], r[2] = byte(o.Slot), byte(o.Slot>>8)
		r[3] = byte(o.Index)
		if o.Source != nil {
			r[4] = byte(o.Source.Epoch)
		}
		if o.Target != nil {
			r[5] = byte(o.Target.Epoch)
		}
		r[6] = o.BeaconBlockRoot[0]
	case *eth2apiv1.ValidatorRegistration:
		r[0] = 0xB1
		r[1] = o.FeeRecipient[0]
		r[2], r[3], r[4], r[5] = byte(o.GasLimit), byte(o.GasLimit>>8), byte(o.GasLimit>>16), byte(o.GasLimit>>24)
		r[6] = o.Pubkey[0]
		ts := o.Timestamp.Unix()
		r[7], r[8], r[9], r[10] = byte(ts), byte(ts>>8), byte(ts>>16), byte(ts>>24)
	case *capella.BeaconBlock:
		r[0] = 0xB0
		r[1], r[2] = byte(o.Slot), byte(o.Slot>>8)
		r[3] = byte(o.ProposerIndex)
		r[4] = o.ParentRoot[0]
	case spectypes.SSZUint64:
		r[0] = 0xB3
		r[1], r[2], r[3] = byte(o), byte(o>>8), byte(o>>16)
	case spectypes.SSZBytes:
		r[0] = 0xB4
		r[1] = byte(len(o))
		if len(o) > 1 {
			r[2], r[3] = o[0], o[1]
		}
	case *phase0.AggregateAndProof:
		r[0] = 0xB5
		r[1], r[2] = byte(o.AggregatorIndex), o.SelectionProof[0]
		if o.Aggregate != nil && o.Aggregate.Data != nil {
			r[3] = byte(o.Aggregate.Data.Slot)
		}
	case *altair.SyncAggregatorSelectionData:
		r[0] = 0xB6
		r[1], r[2] = byte(o.Slot), byte(o.Slot>>8)
		r[3] = byte(o.SubcommitteeIndex)
	case *altair.ContributionAndProof:
		r[0] = 0xB7
		r[1] = byte(o.AggregatorIndex)
		r[2], r[3] = o.SelectionProof[0], o.SelectionProof[1]
		if o.Contribution != nil {
			r[4], r[5], r[6] = byte(o.Contribution.Slot), byte(o.Contribution.SubcommitteeIndex), o.Contribution.BeaconBlockRoot[0]
		}
	case *phase0.VoluntaryExit:
		r[0] = 0xB2
		r[1], r[2], r[3] = byte(o.Epoch), byte(o.Epoch>>8), byte(o.Epoch>>16)
		r[4], r[5] = byte(o.ValidatorIndex), byte(o.ValidatorIndex>>8)
	default:
		r[0] = 0xEE
	}
	return r, nil
}

func zzPSMEncode(m *spectypes.SignedPartialSignatureMessage) ([]byte, error) { return []byte{2}, nil }
func zzPSMsgsRoot(m spectypes.PartialSignatureMessages) ([32]byte, error) {
	var r [32]byte
	r[0], r[1], r[2] = 0x50, byte(m.Type), byte(m.Slot)
	return r, nil
}

// ---- rig

type zzRRig struct {
	n      int
	share  *spectypes.Share
	net    *zzNet
	km     *zzKM
	bn     *zzBN
	store  *zzStore
	ctrl   *controller.Controller
	r      *AttesterRunner
	id     []byte
	lg     *zap.Logger
	valOK  bool
	valLog [][]byte
}

func zzNewRRig(n int, own spectypes.OperatorID) *zzRRig {
	g := &zzRRig{n: n, share: zzShareFor(n, own), net: &zzNet{}, km: &zzKM{own: byte(own)}, store: &zzStore{}, lg: zap.NewNop(), valOK: true}
	g.bn = &zzBN{att: &phase0.AttestationData{Source: &phase0.Checkpoint{Epoch: 1}, Target: &phase0.Checkpoint{Epoch: 2}}}
	valCheck := func(d []byte) error {
		g.valLog = append(g.valLog, d)
		if g.valOK {
			return nil
		}
		return errors.New("bad value")
	}
	mid := spectypes.NewMsgID(spectypes.DomainType{0, 0, 3, 1}, g.share.ValidatorPubKey, spectypes.BNRoleAttester)
	g.id = mid[:]
	cfg := &qbft.Config{Signer: g.km, Domain: spectypes.DomainType{0, 0, 3, 1}, ValueCheckF: valCheck,
		ProposerF: func(s *specqbft.State, r specqbft.Round) spectypes.OperatorID { return specqbft.RoundRobinProposer(s, r) },
		Network:   g.net, Timer: zzTimer{}, Storage: g.store, SignatureVerification: true}
	g.ctrl = controller.NewController(g.id, g.share, cfg, false)
	g.r = NewAttesterRunnner(spectypes.PraterNetwork, g.share, g.ctrl, g.bn, g.net, g.km, valCheck, 0).(*AttesterRunner)
	return g
}

// decided certificate for (height, consensus-data token) by the first k committee members
func (g *zzRRig) decided(height specqbft.Height, round specqbft.Round, value []byte, k int) *specqbft.SignedMessage {
	root, _ := zzHashDataRoot(value)
	m := specqbft.Message{MsgType: specqbft.CommitMsgType, Height: height, Round: round, Identifier: g.id, Root: root}
	mr, _ := zzMessageRoot(&m)
	sm := &specqbft.SignedMessage{Message: m, FullData: value}
	sig := make([]byte, 96)
	sig[0] = 1
	for i := 0; i < k; i++ {
		id := g.share.Committee[i].OperatorID
		sm.Signers = append(sm.Signers, id)
		sig[1+i] = byte(id)
	}
	copy(sig[16:48], mr[:])
	sm.Signature = sig
	return sm
}

// the expected post-consensus root of the decided attestation
func (g *zzRRig) postRoot() [32]byte {
	d, _ := g.bn.DomainData(0, spectypes.DomainAttester)
	r, _ := zzETHSigningRoot(g.bn.att, d)
	return r
}

// checkSigLog: the C03 oracle over the key manager's log.
func (g *zzRRig) checkSigLog(dutySlot phase0.Slot, label string) {
	post := 0
	for _, s := range g.km.sigs {
		if s.domain == spectypes.DomainAttester {
			post++
			zzAssert(s.phase == 2, label+"-post-consensus-signature-only-inside-ProcessConsensus")
			zzAssert(s.obj == ssz.HashRoot(g.bn.att), label+"-signed-object-is-the-decided-object")
		} else {
			zzAssert(false, label+"-attester-makes-no-other-validator-key-signature")
		}
	}
	zzAssert(post <= 1, label+"-at-most-one-signature-per-decided-object")
}

// ZZHarnessAttesterHistory (C03): StartNewDuty(H), then K consensus messages, each an honest-looking decided
// certificate for a symbolic height near H (below, at, above), symbolic signer count and symbolic value
// (the duty's own consensus data or another duty's), replays included. The signer log must show at most one
// post-consensus signature, made inside a ProcessConsensus call whose message decides height H with the
// value check having accepted exactly that value.
func ZZHarnessAttesterHistory() {
	n := int(zzParam("N"))
	k := int(zzParam("K"))
	own := zzCommitteeIDs[n][int(zzParam("OWN"))]
	g := zzNewRRig(n, own)
	H := phase0.Slot(zzNondetRange("dutySlot", 1, 5))
	g.bn.att.Slot = H
	duty := &spectypes.Duty{Type: spectypes.BNRoleAttester, Slot: H, ValidatorIndex: 7, CommitteeLength: 4}
	zzPhase = 1
	err := g.r.StartNewDuty(g.lg, duty)
	zzPhase = 0
	zzAssume(err == nil)
	zzAssert(len(g.km.sigs) == 0, "no-validator-key-signature-at-attester-duty-start")
	ownValue, _ := zzCDEncode(&spectypes.ConsensusData{Duty: *duty, Version: spec.DataVersionPhase0, DataSSZ: []byte{0xA7, 1}})
	otherDuty := *duty
	otherDuty.ValidatorIndex = 8
	otherValue, _ := zzCDEncode(&spectypes.ConsensusData{Duty: otherDuty, Version: spec.DataVersionPhase0, DataSSZ: []byte{0xA7, 1}})
	// optionally the running instance has already accepted the round-1 proposal (the leader's, or its own one
	// looped back) when the certificates arrive
	if pm := zzParam("PROP"); pm == 1 || (pm == 2 && zzNondetBool("proposalAccepted")) {
		root, _ := zzHashDataRoot(ownValue)
		leader := specqbft.RoundRobinProposer(g.r.GetState().RunningInstance.State, 1)
		propMsg := specqbft.Message{MsgType: specqbft.ProposalMsgType, Height: specqbft.Height(H), Round: 1, Identifier: g.id, Root: root}
		zzPhase = 2
		perr := g.r.ProcessConsensus(g.lg, zzHonest(leader, propMsg, ownValue))
		zzPhase = 0
		zzAssume(perr == nil)
		zzAssume(g.r.GetState().RunningInstance.State.ProposalAcceptedForCurrentRound != nil)
		zzAssert(len(g.km.sigs) == 0, "no-validator-key-signature-on-accepting-a-proposal")
		zzReach("proposal-accepted")
	}
	signedAtStep := -1
	for step := 0; step < k; step++ {
		h := specqbft.Height(uint64(H) + zzNondetRange("dh", 0, 3) - 1)
		ns := int(g.share.Quorum) + zzChoose("extraSigners", 2)
		val := ownValue
		if zzNondetBool("otherValue") {
			val = otherValue
			g.valOK = zzNondetBool("otherValueValid")
		} else {
			g.valOK = true
		}
		m := g.decided(h, 1, val, ns)
		before := len(g.km.sigs)
		nval := len(g.valLog)
		zzPhase = 2
		perr := g.r.ProcessConsensus(g.lg, m)
		zzPhase = 0
		if len(g.km.sigs) > before {
			zzReach("signed")
			zzAssert(signedAtStep < 0, "second-signature-for-the-same-duty")
			signedAtStep = step
			zzAssert(perr == nil, "no-error-when-signing")
			zzAssert(uint64(h) == uint64(H), "signature-only-for-decision-at-the-duty-height")
			zzAssert(len(g.valLog) > nval, "value-check-ran-on-the-decided-value")
			if len(g.valLog) > nval {
				last := g.valLog[len(g.valLog)-1]
				zzAssert(len(last) == len(val) && last[1] == val[1], "value-check-ran-on-exactly-the-decided-bytes")
			}
			zzAssert(g.valOK, "signature-only-after-value-check-passed")
		}
	}
	g.checkSigLog(H, "history")
	zzReach("end")
}

// ZZHarnessAttesterAdversarial (C03): StartNewDuty, optional local progress, then ONE fully symbolic
// message to ProcessConsensus (any type/height/round/signers/signature model) and its replay.
func ZZHarnessAttesterAdversarial() {
	n := int(zzParam("N"))
	own := zzCommitteeIDs[n][int(zzParam("OWN"))]
	g := zzNewRRig(n, own)
	H := phase0.Slot(zzNondetRange("dutySlot", 1, 4))
	g.bn.att.Slot = H
	duty := &spectypes.Duty{Type: spectypes.BNRoleAttester, Slot: H, ValidatorIndex: 7, CommitteeLength: 4}
	zzAssume(g.r.StartNewDuty(g.lg, duty) == nil)
	ownValue, _ := zzCDEncode(&spectypes.ConsensusData{Duty: *duty, Version: spec.DataVersionPhase0, DataSSZ: []byte{0xA7, 1}})
	switch zzChoose("prefix", 3) {
	case 1: // already decided (and signed) through a certificate
		zzPhase = 2
		zzAssume(g.r.ProcessConsensus(g.lg, g.decided(specqbft.Height(H), 1, ownValue, int(g.share.Quorum))) == nil)
		zzPhase = 0
	case 2: // finished duty
		g.r.GetState().Finished = true
	}
	pre := len(g.km.sigs)
	m := zzSymMsg(g.id)
	// let the adversary use the duty's own value token as full data
	if zzNondetBool("useOwnValue") {
		m.FullData = ownValue
		m.Message.Root, _ = zzHashDataRoot(ownValue)
		mr, _ := zzMessageRoot(&m.Message)
		copy(m.Signature[16:48], mr[:])
		if zzNondetBool("sigOverOtherMsg2") {
			m.Signature[16] ^= 0x80
		}
	}
	g.valOK = zzNondetBool("valcheck")
	zzPhase = 2
	_ = g.r.ProcessConsensus(g.lg, zzCopyMsg(m))
	zzPhase = 0
	if len(g.km.sigs) > pre {
		zzReach("signed")
		zzAssert(pre == 0, "no-second-signature-after-decision")
		zzAssert(m.Message.MsgType == specqbft.CommitMsgType, "signing-certificate-is-a-commit")
		zzAssert(uint64(m.Message.Height) == uint64(H), "signing-certificate-for-duty-height")
		zzAssert(uint64(len(m.Signers)) >= g.share.Quorum, "signing-certificate-has-quorum")
		for _, s := range m.Signers {
			zzAssert(zzInCommittee(g.share, s), "signing-certificate-signers-in-committee")
		}
		zzAssert(zzSigValid(m), "signing-certificate-signature-valid")
		zzAssert(g.valOK, "signing-only-after-value-check")
		zzAssert(!g.r.GetState().Finished || true, "unused")
	}
	n1 := len(g.km.sigs)
	zzPhase = 2
	_ = g.r.ProcessConsensus(g.lg, zzCopyMsg(m))
	zzPhase = 0
	zzAssert(len(g.km.sigs) == n1, "no-signature-on-replay")
	g.checkSigLog(H, "adversarial")
	zzReach("end")
}

// ZZHarnessAttesterPost (C05): decided attester duty; M partial-signature messages in arbitrary order
// from members / a non-member / repeats, with valid, wrong-key, wrong-root, malformed (undecodable) or
// replaced shares; at most f senders ever misbehave. Every submission verifies under the validator key over
// the decided object's root, at most one submission, and once 2f+1 valid shares from distinct members have
// been delivered a submission has happened.
func ZZHarnessAttesterPost() {
	n := int(zzParam("N"))
	mcount := int(zzParam("M"))
	own := zzCommitteeIDs[n][int(zzParam("OWN"))]
	g := zzNewRRig(n, own)
	H := phase0.Slot(3)
	g.bn.att.Slot = H
	duty := &spectypes.Duty{Type: spectypes.BNRoleAttester, Slot: H, ValidatorIndex: 7, CommitteeLength: 4, ValidatorCommitteeIndex: 1}
	zzAssume(g.r.StartNewDuty(g.lg, duty) == nil)
	// the decided value may carry the duty as the round leader's beacon node saw it: another seat in the committee
	// (the value check does not pin these fields); what is submitted is built from the DECIDED duty
	decidedDuty := *duty
	if zzParam("SEAT") == 1 {
		decidedDuty.CommitteeLength, decidedDuty.ValidatorCommitteeIndex = 6, 3
	}
	ownValue, _ := zzCDEncode(&spectypes.ConsensusData{Duty: decidedDuty, Version: spec.DataVersionPhase0, DataSSZ: []byte{0xA7, 1}})
	zzAssume(g.r.ProcessConsensus(g.lg, g.decided(specqbft.Height(H), 1, ownValue, int(g.share.Quorum))) == nil)
	zzAssume(len(g.km.sigs) == 1)
	root := g.postRoot()
	f := (n - 1) / 3
	q := 2*f + 1
	bad := map[spectypes.OperatorID]bool{} // senders that ever sent something wrong
	validFrom := map[spectypes.OperatorID]bool{}
	members := zzCommitteeIDs[n]
	for step := 0; step < mcount; step++ {
		si := zzChoose("sender", n)
		signer := members[si]
		// the share: validity flag and signing key are symbolic (1 = valid, 0xFF = undecodable bytes)
		sig := zzSigBy(byte(signer), root)
		sig[0] = zzNondetByte("shareFlag")
		sig[1] = zzNondetByte("shareKey")
		msgRoot := root
		slot := H
		valid := sig[0] == 1 && sig[1] == byte(signer)
		kind := 1
		if valid {
			kind = 0
		}
		if !valid {
			bad[signer] = true
			nbad := 0
			for range bad {
				nbad++
			}
			zzAssume(nbad <= f)
		}
		psm := &spectypes.SignedPartialSignatureMessage{Signer: signer, Signature: zzSigBy(byte(signer), [32]byte{0x50}),
			Message: spectypes.PartialSignatureMessages{Type: spectypes.PostConsensusPartialSig, Slot: slot,
				Messages: []*spectypes.PartialSignatureMessage{{PartialSignature: sig, SigningRoot: msgRoot, Signer: signer}}}}
		before := len(g.bn.submits)
		wasFinished := g.r.GetState().Finished
		_ = g.r.ProcessPostConsensus(g.lg, psm)
		if kind == 0 && si < n && slot == H && !wasFinished {
			validFrom[signer] = true
		}
		if len(g.bn.submits) > before {
			zzReach("submitted")
			zzAssert(!wasFinished, "no-submission-after-finished")
			zzAssert(len(g.bn.submits) == 1, "at-most-one-submission-per-decided-object")
			a := g.bn.submits[len(g.bn.submits)-1]
			zzAssert(a.Data == g.bn.att, "submitted-object-is-the-decided-object")
			zzAssert(a.AggregationBits.Len() == decidedDuty.CommitteeLength && a.AggregationBits.BitAt(decidedDuty.ValidatorCommitteeIndex) && a.AggregationBits.Count() == 1,
				"submitted-attestation-names-the-committee-seat-of-the-decided-duty")
			s := a.Signature
			ok := s[0] == 1 && s[1] == 0xFF && s[2] == 0
			for i := 0; i < 32; i++ {
				ok = ok && s[16+i] == root[i]
			}
			zzAssert(ok, "submitted-signature-verifies-under-validator-key-over-decided-root")
			zzAssert(kind == 0 && si < n, "invalid-or-foreign-share-never-triggers-a-submission")
		}
		nvalid := 0
		for range validFrom {
			nvalid++
		}
		if nvalid >= q {
			zzReach("quorum-of-valid-shares")
			zzAssert(len(g.bn.submits) == 1, "submission-happens-once-2f+1-valid-shares-arrived")
		}
	}
	zzReach("end")
}


// ZZHarnessAttesterPostReject (C05): a decided duty with quorum-1 valid shares stored; one more message that
// is wrong in its envelope (other slot, other root, non-member or zero signer, several inner messages) must be
// refused without touching the container and without a submission.
func ZZHarnessAttesterPostReject() {
	n := int(zzParam("N"))
	own := zzCommitteeIDs[n][int(zzParam("OWN"))]
	g := zzNewRRig(n, own)
	H := phase0.Slot(3)
	g.bn.att.Slot = H
	duty := &spectypes.Duty{Type: spectypes.BNRoleAttester, Slot: H, ValidatorIndex: 7, CommitteeLength: 4, ValidatorCommitteeIndex: 1}
	zzAssume(g.r.StartNewDuty(g.lg, duty) == nil)
	ownValue, _ := zzCDEncode(&spectypes.ConsensusData{Duty: *duty, Version: spec.DataVersionPhase0, DataSSZ: []byte{0xA7, 1}})
	zzAssume(g.r.ProcessConsensus(g.lg, g.decided(specqbft.Height(H), 1, ownValue, int(g.share.Quorum))) == nil)
	root := g.postRoot()
	members := zzCommitteeIDs[n]
	q := int(g.share.Quorum)
	mk := func(signer spectypes.OperatorID, slot phase0.Slot, r [32]byte) *spectypes.SignedPartialSignatureMessage {
		return &spectypes.SignedPartialSignatureMessage{Signer: signer, Signature: zzSigBy(byte(signer), [32]byte{0x50}),
			Message: spectypes.PartialSignatureMessages{Type: spectypes.PostConsensusPartialSig, Slot: slot,
				Messages: []*spectypes.PartialSignatureMessage{{PartialSignature: zzSigBy(byte(signer), r), SigningRoot: r, Signer: signer}}}}
	}
	for k := 0; k < q-1; k++ {
		zzAssume(g.r.ProcessPostConsensus(g.lg, mk(members[k], H, root)) == nil)
	}
	zzAssert(len(g.bn.submits) == 0, "no-submission-below-quorum")
	signer := spectypes.OperatorID(zzNondetRange("signer", 0, 12))
	slot := phase0.Slot(zzNondetRange("slot", 0, 6))
	r2 := root
	r2[7] = zzNondetByte("rootbyte")
	m := mk(signer, slot, r2)
	if signer < 256 {
		m.Message.Messages[0].PartialSignature[1] = byte(signer)
	}
	if zzNondetBool("innerSignerDiffers") {
		m.Message.Messages[0].Signer = spectypes.OperatorID(zzNondetRange("innerSigner", 0, 12))
	}
	if zzNondetBool("twoInner") {
		m.Message.Messages = append(m.Message.Messages, m.Message.Messages[0])
	}
	err := g.r.ProcessPostConsensus(g.lg, m)
	wellFormed := zzInCommittee(g.share, signer) && slot == H && r2 == root && len(m.Message.Messages) == 1
	if !wellFormed {
		zzReach("malformed")
		zzAssert(err != nil, "malformed-post-consensus-message-is-refused")
		zzAssert(len(g.bn.submits) == 0, "malformed-message-causes-no-submission")
	}
	if len(g.bn.submits) > 0 {
		zzReach("submitted")
		zzAssert(wellFormed && m.Message.Messages[0].Signer == signer, "submission-only-on-well-formed-share-from-member")
		a := g.bn.submits[0]
		s := a.Signature
		ok := s[0] == 1 && s[1] == 0xFF
		for i := 0; i < 32; i++ {
			ok = ok && s[16+i] == root[i]
		}
		zzAssert(ok, "submitted-signature-verifies-under-validator-key-over-decided-root")
	}
	zzReach("end")
}

// ZZHarnessAttesterReplayAfterOthers (C03): the duty decides (one legitimate signature); then J decided
// certificates for other symbolic heights arrive (they may rotate the controller's bounded instance
// container); then a certificate for the duty height arrives again (a peer's aggregate with more signers, or a
// plain replay): no second signature for the same decided object.
func ZZHarnessAttesterReplayAfterOthers() {
	n := int(zzParam("N"))
	j := int(zzParam("J"))
	own := zzCommitteeIDs[n][int(zzParam("OWN"))]
	g := zzNewRRig(n, own)
	H := phase0.Slot(zzNondetRange("dutySlot", 2, 4))
	g.bn.att.Slot = H
	duty := &spectypes.Duty{Type: spectypes.BNRoleAttester, Slot: H, ValidatorIndex: 7, CommitteeLength: 4}
	zzAssume(g.r.StartNewDuty(g.lg, duty) == nil)
	ownValue, _ := zzCDEncode(&spectypes.ConsensusData{Duty: *duty, Version: spec.DataVersionPhase0, DataSSZ: []byte{0xA7, 1}})
	zzPhase = 2
	zzAssume(g.r.ProcessConsensus(g.lg, g.decided(specqbft.Height(H), 1, ownValue, int(g.share.Quorum))) == nil)
	zzAssume(len(g.km.sigs) == 1)
	for step := 0; step < j; step++ {
		h := specqbft.Height(uint64(H) + zzNondetRange("dh", 0, 4) - 1)
		otherDuty := *duty
		otherDuty.Slot = phase0.Slot(h)
		val, _ := zzCDEncode(&spectypes.ConsensusData{Duty: otherDuty, Version: spec.DataVersionPhase0, DataSSZ: []byte{0xA7, 1}})
		_ = g.r.ProcessConsensus(g.lg, g.decided(h, 1, val, int(g.share.Quorum)))
		zzAssert(len(g.km.sigs) == 1, "certificates-for-other-heights-cause-no-signature")
	}
	ns := int(g.share.Quorum) + zzChoose("extraSigners", 2)
	_ = g.r.ProcessConsensus(g.lg, g.decided(specqbft.Height(H), 1, ownValue, ns))
	zzPhase = 0
	zzAssert(len(g.km.sigs) == 1, "no-second-signature-for-the-decided-object-after-other-certificates")
	g.checkSigLog(H, "replay-after-others")
	zzReach("end")
}

// ZZHarnessAttesterOthersThenDecide (C03): the duty is running; J decided certificates for other symbolic
// heights arrive BEFORE the duty's own decision (a lagging node: they may push the running instance out of the
// controller's bounded instance container); then the certificate for the duty height arrives twice (every peer
// broadcasts it): exactly one signature for the decided object.
func ZZHarnessAttesterOthersThenDecide() {
	n := int(zzParam("N"))
	j := int(zzParam("J"))
	own := zzCommitteeIDs[n][int(zzParam("OWN"))]
	g := zzNewRRig(n, own)
	H := phase0.Slot(zzNondetRange("dutySlot", 2, 4))
	g.bn.att.Slot = H
	duty := &spectypes.Duty{Type: spectypes.BNRoleAttester, Slot: H, ValidatorIndex: 7, CommitteeLength: 4}
	zzAssume(g.r.StartNewDuty(g.lg, duty) == nil)
	ownValue, _ := zzCDEncode(&spectypes.ConsensusData{Duty: *duty, Version: spec.DataVersionPhase0, DataSSZ: []byte{0xA7, 1}})
	zzPhase = 2
	for step := 0; step < j; step++ {
		h := specqbft.Height(uint64(H) + zzNondetRange("dh", 0, 4) - 1)
		zzAssume(uint64(h) != uint64(H))
		otherDuty := *duty
		otherDuty.Slot = phase0.Slot(h)
		val, _ := zzCDEncode(&spectypes.ConsensusData{Duty: otherDuty, Version: spec.DataVersionPhase0, DataSSZ: []byte{0xA7, 1}})
		_ = g.r.ProcessConsensus(g.lg, g.decided(h, 1, val, int(g.share.Quorum)))
		zzAssert(len(g.km.sigs) == 0, "certificates-for-other-heights-cause-no-signature")
	}
	_ = g.r.ProcessConsensus(g.lg, g.decided(specqbft.Height(H), 1, ownValue, int(g.share.Quorum)))
	first := len(g.km.sigs)
	zzAssert(first <= 1, "at-most-one-signature-at-the-decision")
	if first == 1 {
		zzReach("signed")
	}
	ns := int(g.share.Quorum) + zzChoose("extraSigners", 2)
	_ = g.r.ProcessConsensus(g.lg, g.decided(specqbft.Height(H), 1, ownValue, ns))
	zzPhase = 0
	zzAssert(len(g.km.sigs) <= 1, "no-second-signature-for-the-decided-object-when-other-certificates-came-first")
	g.checkSigLog(H, "others-then-decide")
	zzReach("end")
}

// ZZHarnessRunnerDutyGuard (C15, runner level): the real AttesterRunner.StartNewDuty / BaseRunner.ShouldProcessDuty
// over the real controller. K operations, each one of: StartNewDuty(slot) with a symbolic slot, or a decided
// certificate for a symbolic height (which may be above everything seen so far). A duty is accepted only for a slot
// above every slot already started and every height learned as decided; an accepted duty runs consensus at exactly
// its slot.
func ZZHarnessRunnerDutyGuard() {
	n := int(zzParam("N"))
	k := int(zzParam("K"))
	own := zzCommitteeIDs[n][int(zzParam("OWN"))]
	g := zzNewRRig(n, own)
	hiStarted, hiDecided := uint64(0), uint64(0)
	any := false
	for step := 0; step < k; step++ {
		if zzNondetBool("startDuty") {
			slot := zzNondetRange("slot", 0, 5)
			g.bn.att.Slot = phase0.Slot(slot)
			duty := &spectypes.Duty{Type: spectypes.BNRoleAttester, Slot: phase0.Slot(slot), ValidatorIndex: 7, CommitteeLength: 4}
			err := g.r.StartNewDuty(g.lg, duty)
			if err == nil {
				zzReach("started")
				if any {
					zzAssert(slot > hiStarted, "duty-accepted-only-above-every-slot-already-started")
					zzAssert(slot > hiDecided, "duty-accepted-only-above-every-height-learned-as-decided")
				}
				zzAssert(uint64(g.ctrl.Height) == slot, "accepted-duty-runs-consensus-at-its-slot")
				if slot > hiStarted {
					hiStarted = slot
				}
				any = true
			} else {
				zzReach("refused")
			}
		} else {
			h := zzNondetRange("decidedHeight", 0, 6)
			d := *(&spectypes.Duty{Type: spectypes.BNRoleAttester, Slot: phase0.Slot(h), ValidatorIndex: 7, CommitteeLength: 4})
			val, _ := zzCDEncode(&spectypes.ConsensusData{Duty: d, Version: spec.DataVersionPhase0, DataSSZ: []byte{0xA7, 1}})
			// (through the controller, as the runner's ProcessConsensus does; a runner without a running duty forwards too)
			_, err := g.ctrl.ProcessMsg(g.lg, g.decided(specqbft.Height(h), 1, val, int(g.share.Quorum)))
			if err == nil {
				zzReach("learned-decided")
				if h > hiDecided {
					hiDecided = h
				}
				any = true
			}
		}
	}
	zzReach("end")
}
