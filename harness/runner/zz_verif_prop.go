package runner

// C03 / C05 on the real ProposerRunner (pre-consensus RANDAO -> consensus on the block -> post-consensus
// signature -> submission) over a real Controller/Instance.

import (
	"errors"

	"github.com/attestantio/go-eth2-client/spec"
	"github.com/attestantio/go-eth2-client/spec/capella"
	"github.com/attestantio/go-eth2-client/spec/phase0"
	specqbft "github.com/bloxapp/ssv-spec/qbft"
	spectypes "github.com/bloxapp/ssv-spec/types"
	ssz "github.com/ferranbt/fastssz"
	"go.uber.org/zap"

	"github.com/bloxapp/ssv/protocol/v2/qbft"
	"github.com/bloxapp/ssv/protocol/v2/qbft/controller"
)

type zzPRig struct {
	zzRRig
	run *ProposerRunner
}

func zzNewPRig(n int, own spectypes.OperatorID) *zzPRig {
	g := &zzPRig{}
	g.n, g.share, g.net, g.km, g.store, g.lg, g.valOK = n, zzShareFor(n, own), &zzNet{}, &zzKM{own: byte(own)}, &zzStore{}, zap.NewNop(), true
	g.bn = &zzBN{}
	valCheck := func(d []byte) error {
		g.valLog = append(g.valLog, d)
		if g.valOK {
			return nil
		}
		return errors.New("bad value")
	}
	mid := spectypes.NewMsgID(spectypes.DomainType{0, 0, 3, 1}, g.share.ValidatorPubKey, spectypes.BNRoleProposer)
	g.id = mid[:]
	cfg := &qbft.Config{Signer: g.km, Domain: spectypes.DomainType{0, 0, 3, 1}, ValueCheckF: valCheck,
		ProposerF: func(s *specqbft.State, r specqbft.Round) spectypes.OperatorID { return specqbft.RoundRobinProposer(s, r) },
		Network:   g.net, Timer: zzTimer{}, Storage: g.store, SignatureVerification: true}
	g.ctrl = controller.NewController(g.id, g.share, cfg, false)
	g.run = NewProposerRunner(spectypes.PraterNetwork, g.share, g.ctrl, g.bn, g.net, g.km, valCheck, 0).(*ProposerRunner)
	return g
}

func (g *zzPRig) partial(t spectypes.PartialSigMsgType, slot phase0.Slot, signer spectypes.OperatorID, sig []byte, root [32]byte) *spectypes.SignedPartialSignatureMessage {
	return &spectypes.SignedPartialSignatureMessage{Signer: signer, Signature: zzSigBy(byte(signer), [32]byte{0x50}),
		Message: spectypes.PartialSignatureMessages{Type: t, Slot: slot,
			Messages: []*spectypes.PartialSignatureMessage{{PartialSignature: sig, SigningRoot: root, Signer: signer}}}}
}

func zzVerifiesUnderValidatorKey(s []byte, root [32]byte) bool {
	ok := len(s) == 96 && s[0] == 1 && s[1] == 0xFF && s[2] == 0
	for i := 0; ok && i < 32; i++ {
		ok = s[16+i] == root[i]
	}
	return ok
}

// ZZHarnessProposerFlow. Params: N, OWN, K consensus messages, M post-consensus messages, PRE (1: the
// RANDAO shares are symbolic too, otherwise a quorum of valid shares is delivered).
//   - at duty start exactly one validator-key signature: the RANDAO reveal for the duty's epoch
//   - the beacon node is asked for a block exactly once, with a reveal that verifies under the validator key
//   - K decided certificates (heights around the duty, own or another value, value check accepting or not,
//     replays): at most one block signature, inside ProcessConsensus, for the duty height, over the block in
//     the decided value, after the value check accepted exactly those bytes
//   - M post-consensus shares in any order with <= f misbehaving members: at most one submission, of the decided
//     block with a signature valid under the validator key, and a submission once 2f+1 valid shares arrived
func ZZHarnessProposerFlow() {
	n := int(zzParam("N"))
	k := int(zzParam("K"))
	mcount := int(zzParam("M"))
	own := zzCommitteeIDs[n][int(zzParam("OWN"))]
	g := zzNewPRig(n, own)
	members := zzCommitteeIDs[n]
	f := (n - 1) / 3
	q := 2*f + 1
	H := phase0.Slot(3)
	if k > 0 {
		H = phase0.Slot(zzNondetRange("dutySlot", 1, 5))
	}
	g.bn.blk = &capella.BeaconBlock{Slot: H, ProposerIndex: 7}
	zzBlkMarshal(g.bn.blk) // the block is known to the token codec from the start (peers may decide on it before we asked for it)
	duty := &spectypes.Duty{Type: spectypes.BNRoleProposer, Slot: H, ValidatorIndex: 7}
	epoch := spectypes.PraterNetwork.EstimatedEpochAtSlot(H)
	dr, _ := g.bn.DomainData(epoch, spectypes.DomainRandao)
	randaoRoot, _ := zzETHSigningRoot(spectypes.SSZUint64(epoch), dr)

	zzPhase = 1
	err := g.run.StartNewDuty(g.lg, duty)
	zzPhase = 0
	zzAssume(err == nil)
	zzAssert(len(g.km.sigs) == 1 && g.km.sigs[0].domain == spectypes.DomainRandao && g.km.sigs[0].root == randaoRoot, "one-randao-signature-for-the-duty-epoch-at-duty-start")

	// ---- decided certificates arriving while the RANDAO shares are still being collected (no consensus instance is
	// running yet: whatever they decide - the previous duty's height, a later one, or the duty's own slot - it is not
	// a decision of this duty's running instance, so nothing may be signed)
	ownValueEarly, _ := zzCDEncode(&spectypes.ConsensusData{Duty: *duty, Version: spec.DataVersionCapella, DataSSZ: []byte{0xB0, 1}})
	for e := 0; e < int(zzParam("EARLY")); e++ {
		h := specqbft.Height(uint64(H) + zzNondetRange("earlyDh", 0, 2) - 1)
		zzPhase = 2
		_ = g.run.ProcessConsensus(g.lg, g.decided(h, 1, ownValueEarly, q+zzChoose("earlyExtraSigners", 2)))
		zzPhase = 0
		zzReach("early-certificate")
		zzAssert(len(g.km.sigs) == 1, "no-signature-for-a-decision-that-arrives-before-consensus-started")
	}

	// ---- pre-consensus
	if zzParam("PRE") == 1 {
		bad := map[spectypes.OperatorID]bool{}
		validFrom := map[spectypes.OperatorID]bool{}
		for step := 0; step < q+1; step++ {
			signer := members[zzChoose("preSender", n)]
			sig := zzSigBy(byte(signer), randaoRoot)
			sig[0] = zzNondetByte("preFlag")
			valid := sig[0] == 1
			if !valid {
				bad[signer] = true
				zzAssume(len(bad) <= f)
			}
			started := g.run.GetState().RunningInstance != nil
			_ = g.run.ProcessPreConsensus(g.lg, g.partial(spectypes.RandaoPartialSig, H, signer, sig, randaoRoot))
			if valid && !started {
				validFrom[signer] = true
			}
			if len(validFrom) >= q {
				zzAssert(g.run.GetState().RunningInstance != nil, "consensus-starts-once-2f+1-valid-randao-shares-arrived")
			}
		}
		zzAssume(g.run.GetState().RunningInstance != nil)
	} else {
		for i := 0; i < q; i++ {
			zzAssume(g.run.ProcessPreConsensus(g.lg, g.partial(spectypes.RandaoPartialSig, H, members[i], zzSigBy(byte(members[i]), randaoRoot), randaoRoot)) == nil)
		}
	}
	zzAssume(len(g.bn.randaos) >= 1)
	for _, rv := range g.bn.randaos {
		zzAssert(zzVerifiesUnderValidatorKey(rv, randaoRoot), "block-requested-with-a-valid-randao-reveal")
	}
	zzAssert(g.run.GetState().RunningInstance != nil, "consensus-instance-started-after-randao-quorum")
	zzAssert(len(g.km.sigs) == 1, "no-validator-key-signature-while-starting-consensus")
	zzReach("consensus-started")

	// ---- consensus
	ownValue, _ := zzCDEncode(&spectypes.ConsensusData{Duty: *duty, Version: spec.DataVersionCapella, DataSSZ: []byte{0xB0, 1}})
	otherBlk := &capella.BeaconBlock{Slot: H, ProposerIndex: 7}
	otherBlk.ParentRoot[0] = 0x99
	otherSSZ, _ := zzBlkMarshal(otherBlk)
	otherValue, _ := zzCDEncode(&spectypes.ConsensusData{Duty: *duty, Version: spec.DataVersionCapella, DataSSZ: otherSSZ})
	signedAtStep := -1
	var decidedBlk *capella.BeaconBlock
	for step := 0; step < k; step++ {
		h := specqbft.Height(uint64(H) + zzNondetRange("dh", 0, 3) - 1)
		ns := q + zzChoose("extraSigners", 2)
		val := ownValue
		blk := g.bn.blk
		if zzNondetBool("otherValue") {
			val, blk = otherValue, otherBlk
			g.valOK = zzNondetBool("otherValueValid")
		} else {
			g.valOK = true
		}
		m := g.decided(h, 1, val, ns)
		before := len(g.km.sigs)
		nval := len(g.valLog)
		zzPhase = 2
		perr := g.run.ProcessConsensus(g.lg, m)
		zzPhase = 0
		if len(g.km.sigs) > before {
			zzReach("signed")
			zzAssert(len(g.km.sigs) == before+1, "one-signature-per-decision")
			zzAssert(signedAtStep < 0, "second-block-signature-for-the-same-duty")
			signedAtStep = step
			decidedBlk = blk
			zzAssert(perr == nil, "no-error-when-signing")
			zzAssert(uint64(h) == uint64(H), "signature-only-for-decision-at-the-duty-height")
			zzAssert(len(g.valLog) > nval, "value-check-ran-on-the-decided-value")
			if len(g.valLog) > nval {
				last := g.valLog[len(g.valLog)-1]
				zzAssert(len(last) == len(val) && last[1] == val[1], "value-check-ran-on-exactly-the-decided-bytes")
			}
			zzAssert(g.valOK, "signature-only-after-value-check-passed")
			ev := g.km.sigs[len(g.km.sigs)-1]
			zzAssert(ev.domain == spectypes.DomainProposer && ev.obj == ssz.HashRoot(blk), "signed-object-is-the-block-in-the-decided-value")
		}
	}
	if k == 0 {
		// post-consensus runs (C05): an honest decision of the duty's own value
		zzPhase = 2
		zzAssume(g.run.ProcessConsensus(g.lg, g.decided(specqbft.Height(H), 1, ownValue, q)) == nil)
		zzPhase = 0
		zzAssume(len(g.km.sigs) == 2)
		signedAtStep, decidedBlk = 0, g.bn.blk
		zzReach("signed")
	}
	for _, ev := range g.km.sigs[1:] {
		zzAssert(ev.phase == 2 && ev.domain == spectypes.DomainProposer, "block-signature-only-inside-ProcessConsensus")
	}
	if mcount == 0 || signedAtStep < 0 {
		zzReach("end")
		return
	}

	// ---- post-consensus
	dp, _ := g.bn.DomainData(epoch, spectypes.DomainProposer)
	root, _ := zzETHSigningRoot(decidedBlk, dp)
	nsigs := len(g.km.sigs)
	bad := map[spectypes.OperatorID]bool{}
	validFrom := map[spectypes.OperatorID]bool{}
	for step := 0; step < mcount; step++ {
		signer := members[zzChoose("sender", n)]
		sig := zzSigBy(byte(signer), root)
		sig[0] = zzNondetByte("shareFlag")
		sig[1] = zzNondetByte("shareKey")
		valid := sig[0] == 1 && sig[1] == byte(signer)
		if !valid {
			bad[signer] = true
			zzAssume(len(bad) <= f)
		}
		before := len(g.bn.blocks)
		wasFinished := g.run.GetState().Finished
		_ = g.run.ProcessPostConsensus(g.lg, g.partial(spectypes.PostConsensusPartialSig, H, signer, sig, root))
		if valid && !wasFinished {
			validFrom[signer] = true
		}
		if len(g.bn.blocks) > before {
			zzReach("submitted")
			zzAssert(!wasFinished, "no-submission-after-finished")
			zzAssert(len(g.bn.blocks) == 1, "at-most-one-submission-per-decided-object")
			zzAssert(g.bn.blocks[0].blk != nil && g.bn.blocks[0].blk.Capella == decidedBlk, "submitted-object-is-the-decided-block")
			zzAssert(zzVerifiesUnderValidatorKey(g.bn.blocks[0].sig[:], root), "submitted-signature-verifies-under-validator-key-over-decided-root")
			zzAssert(valid, "invalid-share-never-triggers-a-submission")
		}
		if len(validFrom) >= q {
			zzReach("quorum-of-valid-shares")
			zzAssert(len(g.bn.blocks) == 1, "submission-happens-once-2f+1-valid-shares-arrived")
		}
		zzAssert(len(g.km.sigs) == nsigs, "no-validator-key-signature-in-post-consensus")
	}
	zzReach("end")
}

// ZZHarnessProposerReplaced (C03): duty A is replaced by duty B (a later slot) while A's consensus is mid-round
// (proposal accepted, not decided) and B still collects its RANDAO shares. Whatever then arrives for height A -
// here its decided certificate - is a message "for another height / a finished duty": no validator-key signature.
func ZZHarnessProposerReplaced() {
	n := int(zzParam("N"))
	own := zzCommitteeIDs[n][int(zzParam("OWN"))]
	g := zzNewPRig(n, own)
	members := zzCommitteeIDs[n]
	q := 2*((n-1)/3) + 1
	HA, HB := phase0.Slot(3), phase0.Slot(3+zzNondetRange("gap", 1, 3))
	g.bn.blk = &capella.BeaconBlock{Slot: HA, ProposerIndex: 7}
	zzBlkMarshal(g.bn.blk)
	dutyA := &spectypes.Duty{Type: spectypes.BNRoleProposer, Slot: HA, ValidatorIndex: 7}
	epoch := spectypes.PraterNetwork.EstimatedEpochAtSlot(HA)
	dr, _ := g.bn.DomainData(epoch, spectypes.DomainRandao)
	randaoRoot, _ := zzETHSigningRoot(spectypes.SSZUint64(epoch), dr)
	zzAssume(g.run.StartNewDuty(g.lg, dutyA) == nil)
	for i := 0; i < q; i++ {
		zzAssume(g.run.ProcessPreConsensus(g.lg, g.partial(spectypes.RandaoPartialSig, HA, members[i], zzSigBy(byte(members[i]), randaoRoot), randaoRoot)) == nil)
	}
	zzAssume(g.run.GetState().RunningInstance != nil)
	valueA, _ := zzCDEncode(&spectypes.ConsensusData{Duty: *dutyA, Version: spec.DataVersionCapella, DataSSZ: []byte{0xB0, 1}})
	if zzNondetBool("proposalAccepted") {
		root, _ := zzHashDataRoot(valueA)
		leader := specqbft.RoundRobinProposer(g.run.GetState().RunningInstance.State, 1)
		pm := specqbft.Message{MsgType: specqbft.ProposalMsgType, Height: specqbft.Height(HA), Round: 1, Identifier: g.id, Root: root}
		zzAssume(g.run.ProcessConsensus(g.lg, zzHonest(leader, pm, valueA)) == nil)
		zzReach("proposal-accepted")
	}
	// the next duty starts
	dutyB := &spectypes.Duty{Type: spectypes.BNRoleProposer, Slot: HB, ValidatorIndex: 7}
	zzAssume(g.run.StartNewDuty(g.lg, dutyB) == nil)
	nsig := len(g.km.sigs)
	zzPhase = 2
	_ = g.run.ProcessConsensus(g.lg, g.decided(specqbft.Height(HA), 1, valueA, q))
	zzPhase = 0
	zzAssert(len(g.km.sigs) == nsig, "a-decision-for-the-replaced-duty-causes-no-validator-key-signature")
	zzAssert(g.run.GetState().StartingDuty != nil && g.run.GetState().StartingDuty.Slot == HB, "the-new-duty-stays-the-running-duty")
	zzReach("end")
}
