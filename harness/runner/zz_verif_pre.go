package runner

// C05 / C03 on the runners without a consensus phase (validator registration, voluntary exit): the only
// validator-key signature is the pre-consensus one made when the duty starts, and the reconstructed
// signature reaches the beacon node at most once, only if it verifies under the validator key over the
// duty object, and as soon as 2f+1 valid shares from distinct members have arrived - whatever <= f members send.

import (
	eth2apiv1 "github.com/attestantio/go-eth2-client/api/v1"
	"github.com/attestantio/go-eth2-client/spec/phase0"
	ssz "github.com/ferranbt/fastssz"
	spectypes "github.com/bloxapp/ssv-spec/types"
	"go.uber.org/zap"

	"github.com/bloxapp/ssv/protocol/v2/qbft"
	"github.com/bloxapp/ssv/protocol/v2/qbft/controller"
)

// ZZHarnessPreSubmit. Params: N committee size, OWN index of the own operator, M messages, ROLE 0 = validator
// registration, 1 = voluntary exit.
func ZZHarnessPreSubmit() {
	n := int(zzParam("N"))
	mcount := int(zzParam("M"))
	own := zzCommitteeIDs[n][int(zzParam("OWN"))]
	exit := zzParam("ROLE") == 1
	share := zzShareFor(n, own)
	share.FeeRecipientAddress[0] = 0x42
	net := &zzNet{}
	km := &zzKM{own: byte(own)}
	bn := &zzBN{}
	lg := zap.NewNop()
	H := phase0.Slot(3)
	if zzParam("EPOCHS") == 2 && zzNondetBool("laterEpoch") {
		H = 35
	}
	var r Runner
	var duty *spectypes.Duty
	var obj ssz.HashRoot
	var domainType phase0.DomainType
	var ptype spectypes.PartialSigMsgType
	epoch := spectypes.PraterNetwork.EstimatedEpochAtSlot(H)
	if exit {
		r = NewVoluntaryExitRunner(spectypes.PraterNetwork, share, bn, net, km)
		duty = &spectypes.Duty{Type: spectypes.BNRoleVoluntaryExit, Slot: H, ValidatorIndex: 7}
		obj = &phase0.VoluntaryExit{Epoch: epoch, ValidatorIndex: 7}
		domainType = spectypes.DomainVoluntaryExit
		ptype = spectypes.VoluntaryExitPartialSig
	} else {
		mid := spectypes.NewMsgID(spectypes.DomainType{0, 0, 3, 1}, share.ValidatorPubKey, spectypes.BNRoleValidatorRegistration)
		cfg := &qbft.Config{Signer: km, Domain: spectypes.DomainType{0, 0, 3, 1}, Network: net, Timer: zzTimer{}, Storage: &zzStore{}}
		ctrl := controller.NewController(mid[:], share, cfg, false)
		r = NewValidatorRegistrationRunner(spectypes.PraterNetwork, share, ctrl, bn, net, km)
		duty = &spectypes.Duty{Type: spectypes.BNRoleValidatorRegistration, Slot: H, ValidatorIndex: 7}
		var pk phase0.BLSPubKey
		copy(pk[:], share.ValidatorPubKey)
		obj = &eth2apiv1.ValidatorRegistration{FeeRecipient: share.FeeRecipientAddress, GasLimit: spectypes.DefaultGasLimit,
			Timestamp: spectypes.PraterNetwork.EpochStartTime(epoch), Pubkey: pk}
		domainType = spectypes.DomainApplicationBuilder
		ptype = spectypes.ValidatorRegistrationPartialSig
	}
	zzPhase = 1
	zzAssume(r.StartNewDuty(lg, duty) == nil)
	zzPhase = 0
	d, _ := bn.DomainData(epoch, domainType)
	root, _ := zzETHSigningRoot(obj, d)
	zzAssert(len(km.sigs) == 1 && km.sigs[0].domain == domainType && km.sigs[0].root == root, "one-pre-consensus-signature-over-the-duty-object-at-duty-start")

	nsub := func() int { return len(bn.regs) + len(bn.exits) }
	f := (n - 1) / 3
	q := 2*f + 1
	bad := map[spectypes.OperatorID]bool{}
	validFrom := map[spectypes.OperatorID]bool{}
	members := zzCommitteeIDs[n]
	for step := 0; step < mcount; step++ {
		si := zzChoose("sender", n)
		signer := members[si]
		sig := zzSigBy(byte(signer), root)
		sig[0] = zzNondetByte("shareFlag")
		sig[1] = zzNondetByte("shareKey")
		valid := sig[0] == 1 && sig[1] == byte(signer)
		if !valid {
			bad[signer] = true
			nbad := 0
			for range bad {
				nbad++
			}
			zzAssume(nbad <= f)
		}
		psm := &spectypes.SignedPartialSignatureMessage{Signer: signer, Signature: zzSigBy(byte(signer), [32]byte{0x50}),
			Message: spectypes.PartialSignatureMessages{Type: ptype, Slot: H,
				Messages: []*spectypes.PartialSignatureMessage{{PartialSignature: sig, SigningRoot: root, Signer: signer}}}}
		before := nsub()
		wasFinished := r.GetBaseRunner().State.Finished
		_ = r.ProcessPreConsensus(lg, psm)
		if valid && !wasFinished {
			validFrom[signer] = true
		}
		if nsub() > before {
			zzReach("submitted")
			zzAssert(!wasFinished, "no-submission-after-finished")
			zzAssert(nsub() == 1, "at-most-one-submission-per-duty-object")
			var s phase0.BLSSignature
			if exit {
				s = bn.exits[0].Signature
				zzAssert(bn.exits[0].Message != nil && bn.exits[0].Message.Epoch == epoch && bn.exits[0].Message.ValidatorIndex == 7, "submitted-object-is-the-duty-object")
			} else {
				s = bn.regs[0]
			}
			ok := s[0] == 1 && s[1] == 0xFF && s[2] == 0
			for i := 0; i < 32; i++ {
				ok = ok && s[16+i] == root[i]
			}
			zzAssert(ok, "submitted-signature-verifies-under-validator-key-over-duty-root")
			zzAssert(valid, "invalid-share-never-triggers-a-submission")
		}
		nvalid := 0
		for range validFrom {
			nvalid++
		}
		if nvalid >= q {
			zzReach("quorum-of-valid-shares")
			zzAssert(nsub() == 1, "submission-happens-once-2f+1-valid-shares-arrived")
		}
		zzAssert(len(km.sigs) == 1, "no-validator-key-signature-after-duty-start")
	}
	zzReach("end")
}
