package ekm

// C04: the real ethKeyManagerSigner (and the dependency's SimpleSigner / NormalProtection it wires) on a
// contract-only record store and wallet: one step from an arbitrary record state with ghost maxima of
// everything signed so far.

import (
	"errors"
	"sync"
	"time"

	"github.com/attestantio/go-eth2-client/spec/capella"
	"github.com/attestantio/go-eth2-client/spec/phase0"
	"github.com/bloxapp/eth2-key-manager/core"
	"github.com/bloxapp/eth2-key-manager/encryptor"
	"github.com/bloxapp/eth2-key-manager/signer"
	"github.com/bloxapp/eth2-key-manager/wallets/hd"
	slashingprotection "github.com/bloxapp/eth2-key-manager/slashing_protection"
	spectypes "github.com/bloxapp/ssv-spec/types"
	ssz "github.com/ferranbt/fastssz"
	"github.com/google/uuid"
	"github.com/herumi/bls-eth-go-binary/bls"

	"github.com/bloxapp/ssv/protocol/v2/blockchain/beacon"
	"github.com/bloxapp/ssv/storage/basedb"
)

type zzBeacon struct{ slot phase0.Slot }

func (b *zzBeacon) ForkVersion() [4]byte                                 { return [4]byte{} }
func (b *zzBeacon) MinGenesisTime() uint64                               { return 0 }
func (b *zzBeacon) SlotDurationSec() time.Duration                       { return 12 * time.Second }
func (b *zzBeacon) SlotsPerEpoch() uint64                                { return 32 }
func (b *zzBeacon) EstimatedCurrentSlot() phase0.Slot                    { return b.slot }
func (b *zzBeacon) EstimatedSlotAtTime(t int64) phase0.Slot              { return phase0.Slot(t / 12) }
func (b *zzBeacon) EstimatedTimeAtSlot(slot phase0.Slot) int64           { return int64(slot) * 12 }
func (b *zzBeacon) EstimatedCurrentEpoch() phase0.Epoch                  { return phase0.Epoch(b.slot / 32) }
func (b *zzBeacon) EstimatedEpochAtSlot(slot phase0.Slot) phase0.Epoch   { return phase0.Epoch(slot / 32) }
func (b *zzBeacon) FirstSlotAtEpoch(epoch phase0.Epoch) phase0.Slot      { return phase0.Slot(epoch * 32) }
func (b *zzBeacon) EpochStartTime(epoch phase0.Epoch) time.Time          { return time.Unix(int64(epoch)*32*12, 0) }
func (b *zzBeacon) GetSlotStartTime(slot phase0.Slot) time.Time          { return time.Unix(int64(slot)*12, 0) }
func (b *zzBeacon) GetSlotEndTime(slot phase0.Slot) time.Time            { return time.Unix(int64(slot+1)*12, 0) }
func (b *zzBeacon) IsFirstSlotOfEpoch(slot phase0.Slot) bool             { return slot%32 == 0 }
func (b *zzBeacon) GetEpochFirstSlot(epoch phase0.Epoch) phase0.Slot     { return phase0.Slot(epoch * 32) }
func (b *zzBeacon) EpochsPerSyncCommitteePeriod() uint64                 { return 256 }
func (b *zzBeacon) EstimatedSyncCommitteePeriodAtEpoch(e phase0.Epoch) uint64 { return uint64(e) / 256 }
func (b *zzBeacon) FirstEpochOfSyncPeriod(period uint64) phase0.Epoch    { return phase0.Epoch(period * 256) }
func (b *zzBeacon) LastSlotOfSyncPeriod(period uint64) phase0.Slot       { return phase0.Slot((period+1)*256*32 - 1) }
func (b *zzBeacon) GetNetwork() beacon.Network                           { return beacon.Network{} }
func (b *zzBeacon) GetBeaconNetwork() spectypes.BeaconNetwork            { return spectypes.PraterNetwork }

type zzAcc struct{ pk []byte }

func (a *zzAcc) ID() uuid.UUID                                   { return uuid.UUID{1} }
func (a *zzAcc) Name() string                                    { return "a" }
func (a *zzAcc) BasePath() string                                { return "" }
func (a *zzAcc) ValidatorPublicKey() []byte                      { return a.pk }
func (a *zzAcc) WithdrawalPublicKey() []byte                     { return nil }
func (a *zzAcc) ValidationKeySign(data []byte) ([]byte, error)   { return make([]byte, 96), nil }
func (a *zzAcc) GetDepositData() (map[string]interface{}, error) { return nil, nil }
func (a *zzAcc) SetContext(ctx *core.WalletContext)              {}

type zzWallet struct {
	acc     *zzAcc
	deletes int
	// how an absent account is reported (both occur in the real wallet): as hd.ErrAccountNotFound (the key is not in
	// the wallet's index) or as the storage's own "account not found" (index entry without a record)
	absentAsIndexMiss bool
}

func (w *zzWallet) ID() uuid.UUID         { return uuid.UUID{2} }
func (w *zzWallet) Type() core.WalletType { return core.NDWallet }
func (w *zzWallet) CreateValidatorAccount(seed []byte, idx *int) (core.ValidatorAccount, error) {
	return nil, nil
}
func (w *zzWallet) CreateValidatorAccountFromPrivateKey(pk []byte, idx *int) (core.ValidatorAccount, error) {
	return nil, nil
}
func (w *zzWallet) AddValidatorAccount(account core.ValidatorAccount) error {
	w.acc = &zzAcc{pk: make([]byte, 48)}
	return nil
}
func (w *zzWallet) Accounts() []core.ValidatorAccount                       { return nil }
func (w *zzWallet) AccountByID(id uuid.UUID) (core.ValidatorAccount, error) { return w.acc, nil }
func (w *zzWallet) AccountByPublicKey(pubKey string) (core.ValidatorAccount, error) {
	if w.acc == nil {
		if w.absentAsIndexMiss {
			return nil, hd.ErrAccountNotFound
		}
		return nil, errors.New("account not found")
	}
	return w.acc, nil
}
func (w *zzWallet) DeleteAccountByPublicKey(pubKey string) error {
	w.deletes++
	w.acc = nil
	return nil
}
func (w *zzWallet) SetContext(ctx *core.WalletContext)           {}

type zzStore struct {
	bn        *zzBeacon
	attFound  bool
	attS      phase0.Epoch
	attT      phase0.Epoch
	propFound bool
	prop      phase0.Slot
	writes    int
	failAt    int // the failAt-th write (1-based) fails / "crashes"; 0 = none

	yieldOnRead bool // schedule-exploring runs: every record read is a scheduling point
}

func (s *zzStore) write() error {
	s.writes++
	if s.writes == s.failAt {
		return errors.New("zz: storage write failed")
	}
	return nil
}

func (s *zzStore) DropRegistryData() error                         { return nil }
func (s *zzStore) Name() string                                    { return "zz" }
func (s *zzStore) Network() core.Network                           { return core.PraterNetwork }
func (s *zzStore) SaveWallet(w core.Wallet) error                  { return nil }
func (s *zzStore) OpenWallet() (core.Wallet, error)                { return nil, nil }
func (s *zzStore) ListAccounts() ([]core.ValidatorAccount, error)  { return nil, nil }
func (s *zzStore) SaveAccount(a core.ValidatorAccount) error       { return nil }
func (s *zzStore) DeleteAccount(id uuid.UUID) error                { return nil }
func (s *zzStore) OpenAccount(id uuid.UUID) (core.ValidatorAccount, error) { return nil, nil }
func (s *zzStore) SetEncryptor(e encryptor.Encryptor, pw []byte)   {}
func (s *zzStore) SaveHighestAttestation(pk []byte, a *phase0.AttestationData) error {
	if err := s.write(); err != nil {
		return err
	}
	s.attFound, s.attS, s.attT = true, a.Source.Epoch, a.Target.Epoch
	return nil
}
func (s *zzStore) RetrieveHighestAttestation(pk []byte) (*phase0.AttestationData, bool, error) {
	found, src, tgt := s.attFound, s.attS, s.attT
	if s.yieldOnRead {
		zzYield() // storage I/O: a scheduling point of the schedule-exploring mode (the value read may go stale)
		if !found {
			return nil, false, nil
		}
		return &phase0.AttestationData{Source: &phase0.Checkpoint{Epoch: src}, Target: &phase0.Checkpoint{Epoch: tgt}}, true, nil
	}
	if !s.attFound {
		return nil, false, nil
	}
	return &phase0.AttestationData{Source: &phase0.Checkpoint{Epoch: s.attS}, Target: &phase0.Checkpoint{Epoch: s.attT}}, true, nil
}
func (s *zzStore) SaveHighestProposal(pk []byte, slot phase0.Slot) error {
	if err := s.write(); err != nil {
		return err
	}
	s.propFound, s.prop = true, slot
	return nil
}
func (s *zzStore) RetrieveHighestProposal(pk []byte) (phase0.Slot, bool, error) {
	slot, found := s.prop, s.propFound
	if s.yieldOnRead {
		zzYield()
	}
	return slot, found, nil
}
func (s *zzStore) RemoveHighestAttestation(pk []byte) error {
	if err := s.write(); err != nil {
		return err
	}
	s.attFound = false
	return nil
}
func (s *zzStore) RemoveHighestProposal(pk []byte) error {
	if err := s.write(); err != nil {
		return err
	}
	s.propFound = false
	return nil
}
func (s *zzStore) SetEncryptionKey(k string) error          { return nil }
func (s *zzStore) ListAccountsTxn(r basedb.Reader) ([]core.ValidatorAccount, error) { return nil, nil }
func (s *zzStore) SaveAccountTxn(rw basedb.ReadWriter, a core.ValidatorAccount) error { return nil }
func (s *zzStore) BeaconNetwork() beacon.BeaconNetwork      { return s.bn }


// redirect targets
func zzSigningRoot(obj ssz.HashRoot, domain phase0.Domain) (phase0.Root, error) { return phase0.Root{}, nil }
func zzSaveShare(km *ethKeyManagerSigner, shareKey *bls.SecretKey) error {
	return km.wallet.AddValidatorAccount(nil)
}

const zzE = 1 << 30

type zzGhost struct {
	S, T phase0.Epoch // maxima over all attestation signatures ever released
	B    phase0.Slot  // max block slot ever signed
}

// zzState builds an arbitrary state satisfying Inv.
func zzState() (*zzStore, *zzWallet, *ethKeyManagerSigner, zzGhost, phase0.Slot) {
	clock := phase0.Slot(zzNondetRange("clock_slot", 32, zzE))
	st := &zzStore{bn: &zzBeacon{slot: clock}}
	var g zzGhost
	g.S = phase0.Epoch(zzNondetRange("ghost_max_source", 0, zzE))
	g.T = phase0.Epoch(zzNondetRange("ghost_max_target", 0, zzE))
	g.B = phase0.Slot(zzNondetRange("ghost_max_block_slot", 0, zzE))
	zzAssume(g.T <= phase0.Epoch(clock/32))    // attestation targets never beyond the clock (property's quantifier)
	zzAssume(g.B <= clock)                     // block slots never beyond the clock
	zzAssume(g.S < g.T || (g.S == 0 && g.T == 0)) // every attestation handed to the signer has source < target (duty value check)
	st.attFound = zzNondetBool("att_record_present")
	st.attS = phase0.Epoch(zzNondetRange("rec_source", 0, zzE))
	st.attT = phase0.Epoch(zzNondetRange("rec_target", 0, zzE))
	st.propFound = zzNondetBool("prop_record_present")
	st.prop = phase0.Slot(zzNondetRange("rec_prop", 0, zzE))
	if st.attFound {
		zzAssume(st.attS >= g.S && st.attT >= g.T) // Inv
	}
	if st.propFound {
		zzAssume(st.prop >= g.B) // Inv
	}
	w := &zzWallet{}
	if zzNondetBool("account_present") {
		w.acc = &zzAcc{pk: make([]byte, 48)}
	}
	prot := slashingprotection.NewNormalProtection(st)
	km := &ethKeyManagerSigner{wallet: w, walletLock: &sync.RWMutex{}, signer: signer.NewSimpleSigner(w, prot, core.PraterNetwork),
		storage: st, slashingProtector: prot}
	return st, w, km, g, clock
}

func zzInv(st *zzStore, g zzGhost, label string) {
	if st.attFound {
		zzAssert(st.attS >= g.S && st.attT >= g.T, label+"-inv-attestation-record-covers-everything-signed")
	}
	if st.propFound {
		zzAssert(st.prop >= g.B, label+"-inv-proposal-record-covers-everything-signed")
	}
}

// ZZHarnessSignAttestation: one attestation signing request from an arbitrary state, with an optional
// storage-write failure at the k-th write.
func ZZHarnessSignAttestation() {
	st, w, km, g, clock := zzState()
	st.failAt = zzChoose("failAt", 3)
	pk := make([]byte, 48)
	s2 := phase0.Epoch(zzNondetRange("att_source", 0, zzE))
	t2 := phase0.Epoch(zzNondetRange("att_target", 0, zzE))
	zzAssume(s2 < t2 && t2 <= phase0.Epoch(clock/32))
	hadRecord := st.attFound
	att := &phase0.AttestationData{Slot: clock, Source: &phase0.Checkpoint{Epoch: s2}, Target: &phase0.Checkpoint{Epoch: t2}}
	_, _, err := km.SignBeaconObject(att, phase0.Domain{}, pk, spectypes.DomainAttester)
	if err == nil {
		zzReach("signed")
		zzAssert(w.acc != nil, "signed-only-with-account")
		zzAssert(hadRecord, "missing-record-refuses")
		zzAssert(t2 > g.T, "no-double-vote-and-not-surrounded: target above every earlier target")
		zzAssert(s2 >= g.S, "not-surrounding: source not below any earlier source")
		zzAssert(st.attFound && st.attT >= t2 && st.attS >= s2, "record-updated-before-the-signature-is-released")
		if t2 > g.T {
			g.T = t2
		}
		if s2 > g.S {
			g.S = s2
		}
	} else {
		zzReach("refused")
	}
	zzInv(st, g, "after-sign")
	// IsAttestationSlashable agrees with the signer's decision for the same data on the same record
	zzReach("end")
}

// ZZHarnessSignBlock: one block signing request (capella block with a symbolic slot).
func ZZHarnessSignBlock() {
	st, w, km, g, clock := zzState()
	st.failAt = zzChoose("failAt", 3)
	pk := make([]byte, 48)
	slot := phase0.Slot(zzNondetRange("block_slot", 0, zzE))
	zzAssume(slot <= clock)
	hadRecord := st.propFound
	blk := &capella.BeaconBlock{Slot: slot}
	_, _, err := km.SignBeaconObject(blk, phase0.Domain{}, pk, spectypes.DomainProposer)
	if err == nil {
		zzReach("signed")
		zzAssert(w.acc != nil, "block-signed-only-with-account")
		zzAssert(hadRecord, "block-missing-record-refuses")
		zzAssert(slot > g.B, "no-second-block-for-a-slot-at-or-below-an-earlier-one")
		zzAssert(st.propFound && st.prop >= slot, "proposal-record-updated-before-the-signature-is-released")
		if slot > g.B {
			g.B = slot
		}
	} else {
		zzReach("refused")
	}
	zzInv(st, g, "after-block")
	zzReach("end")
}

// ZZHarnessBump: AddShare (account absent or present) / BumpSlashingProtection (re-activation) /
// RemoveShare, each with an optional failing storage write: Inv afterwards, records never lowered.
func ZZHarnessBump() {
	st, w, km, g, clock := zzState()
	st.failAt = zzChoose("failAt", 4)
	pk := make([]byte, 48)
	recS, recT, hadAtt := st.attS, st.attT, st.attFound
	recP, hadProp := st.prop, st.propFound
	epoch := phase0.Epoch(clock / 32)
	switch zzChoose("op", 3) {
	case 0: // re-activation
		err := km.BumpSlashingProtection(pk)
		if err == nil {
			zzReach("bumped")
			zzAssert(st.attFound && st.propFound, "records-present-after-bump")
			zzAssert(st.attT >= epoch || (hadAtt && st.attS == recS && st.attT == recT), "bump-reaches-current-epoch-or-keeps-the-existing-record")
		}
	case 1: // AddShare
		sk := &bls.SecretKey{}
		hadAcc := w.acc != nil
		err := km.AddShare(sk)
		if err == nil {
			zzReach("added")
			zzAssert(w.acc != nil, "account-present-after-add")
			if !hadAcc {
				zzAssert(st.attFound && st.propFound, "records-present-after-first-add")
			}
		} else {
			zzAssert(hadAcc || w.acc == nil, "failed-add-does-not-create-an-account")
		}
	case 2: // RemoveShare
		err := km.RemoveShare("00")
		if err == nil && w.deletes > 0 {
			zzReach("removed")
			zzAssert(w.acc == nil, "account-gone-after-remove")
		}
	}
	if hadAtt && st.attFound {
		zzAssert(st.attS >= recS && st.attT >= recT, "attestation-record-never-lowered")
	}
	if hadProp && st.propFound {
		zzAssert(st.prop >= recP, "proposal-record-never-lowered")
	}
	zzInv(st, g, "after-op")
	zzReach("end")
}

// ZZHarnessSlashingLemma: the two conditions asserted at signing time imply that the new attestation is not
// slashable against ANY earlier one (pure arithmetic over two arbitrary earlier attestations).
func ZZHarnessSlashingLemma() {
	s1 := zzNondetRange("s1", 0, zzE)
	t1 := zzNondetRange("t1", 0, zzE)
	S := zzNondetRange("S", 0, zzE)
	T := zzNondetRange("T", 0, zzE)
	s := zzNondetRange("s", 0, zzE)
	t := zzNondetRange("t", 0, zzE)
	zzAssume(s1 < t1 && s1 <= S && t1 <= T) // an earlier attestation, below the maxima
	zzAssume(s < t && t > T && s >= S)      // what the signer guarantees for the new one
	zzAssert(t != t1, "no-double-vote")
	zzAssert(!(s < s1 && t1 < t), "new-does-not-surround-old")
	zzAssert(!(s1 < s && t < t1), "old-does-not-surround-new")
	zzReach("end")
}

func zzFarFutureEpoch(network core.Network, epoch phase0.Epoch) bool { return true }
func zzFarFutureSlot(network core.Network, slot phase0.Slot) bool    { return true }

// ZZHarnessConcurrentSign (C04, schedules): two signing requests for one share run as goroutines under the
// schedule-exploring mode (real mutex state for the wallet lock and the signer's per-account locks; every
// Lock/Unlock and every record read is a scheduling point; <= SCHED_PREEMPT preemptions), from an arbitrary
// record state satisfying Inv. KIND 0: two attestations with symbolic (source, target); KIND 1: two blocks with
// symbolic slots. Whatever the schedule, the signatures released are pairwise non-slashable and non-slashable
// against everything signed before, and Inv holds afterwards.
func ZZHarnessConcurrentSign() {
	st, w, km, g, clock := zzState()
	zzAssume(w.acc != nil && st.attFound && st.propFound)
	st.yieldOnRead = true
	pk := make([]byte, 48)
	blocks := zzParam("KIND") == 1
	var s [2]phase0.Epoch
	var t [2]phase0.Epoch
	var b [2]phase0.Slot
	for i := 0; i < 2; i++ {
		if blocks {
			b[i] = phase0.Slot(zzNondetRange("block_slot", 0, zzE))
			zzAssume(b[i] <= clock)
		} else {
			s[i] = phase0.Epoch(zzNondetRange("att_source", 0, zzE))
			t[i] = phase0.Epoch(zzNondetRange("att_target", 0, zzE))
			zzAssume(s[i] < t[i] && t[i] <= phase0.Epoch(clock/32))
		}
	}
	var ok [2]bool
	done := make(chan int, 1)
	finished := 0
	for i := 0; i < 2; i++ {
		go func(i int) {
			var err error
			if blocks {
				_, _, err = km.SignBeaconObject(&capella.BeaconBlock{Slot: b[i]}, phase0.Domain{}, pk, spectypes.DomainProposer)
			} else {
				att := &phase0.AttestationData{Slot: clock, Source: &phase0.Checkpoint{Epoch: s[i]}, Target: &phase0.Checkpoint{Epoch: t[i]}}
				_, _, err = km.SignBeaconObject(att, phase0.Domain{}, pk, spectypes.DomainAttester)
			}
			ok[i] = err == nil
			finished++
			if finished == 2 {
				done <- i
			}
		}(i)
	}
	<-done
	for i := 0; i < 2; i++ {
		if !ok[i] {
			continue
		}
		zzReach("signed")
		if blocks {
			zzAssert(b[i] > g.B, "concurrent: no second block for a slot at or below an earlier one")
		} else {
			zzAssert(t[i] > g.T && s[i] >= g.S, "concurrent: not slashable against anything signed before")
		}
	}
	if ok[0] && ok[1] {
		zzReach("both-signed")
		if blocks {
			zzAssert(b[0] != b[1], "concurrent: never two blocks for the same slot")
		} else {
			zzAssert(t[0] != t[1], "concurrent: never two attestations with the same target")
			zzAssert(!(s[0] < s[1] && t[1] < t[0]) && !(s[1] < s[0] && t[0] < t[1]), "concurrent: never a surrounding pair")
		}
	}
	for i := 0; i < 2; i++ {
		if ok[i] {
			if blocks {
				if b[i] > g.B {
					g.B = b[i]
				}
			} else {
				if t[i] > g.T {
					g.T = t[i]
				}
				if s[i] > g.S {
					g.S = s[i]
				}
			}
		}
	}
	zzInv(st, g, "after-concurrent-signing")
	zzReach("end")
}

// ZZHarnessShareIdempotence (C12: "idempotent out-of-transaction side effects - add share only if absent, remove only
// if present"): replaying a block after a crash calls AddShare / RemoveShare again on whatever the interrupted run
// left behind. The wallet reports an absent account in one of the two ways the real wallet does (the key is missing
// from its index: hd.ErrAccountNotFound; or the index still lists the key but the account record is gone: the
// storage's own "account not found"). Either way RemoveShare of an absent share is a successful no-op and AddShare
// of an absent share adds it (no storage write fails here).
func ZZHarnessShareIdempotence() {
	st, w, km, g, _ := zzState()
	w.acc = nil
	w.absentAsIndexMiss = zzNondetBool("absenceReportedAsIndexMiss")
	if zzNondetBool("remove") {
		err := km.RemoveShare("00")
		zzReach("remove-absent")
		zzAssert(err == nil, "removing-an-absent-share-is-a-successful-no-op")
		zzAssert(w.acc == nil, "absent-share-stays-absent")
	} else {
		err := km.AddShare(&bls.SecretKey{})
		zzReach("add-absent")
		zzAssert(err == nil && w.acc != nil, "adding-an-absent-share-adds-it")
	}
	zzInv(st, g, "after-replayed-side-effect")
	zzReach("end")
}
