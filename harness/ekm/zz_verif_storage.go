package ekm

// C04, storage layer: the real signer storage (ekm/signer_storage.go: keys, SSZ encoding, found / not found,
// error propagation) over the contract-only key-value store, with a write that may fail. What the slashing
// protection relies on: a save that is reported as successful is durable and read back unchanged, a failed write is
// reported and leaves the old record, records are per public key, a removed record is "not found".

import (
	"github.com/attestantio/go-eth2-client/spec/phase0"
	"go.uber.org/zap"
)

func ZZHarnessStorageLayer() {
	db := &zzDB{data: map[string][]byte{}}
	st := NewSignerStorage(db, &zzBeacon{slot: 64}, zap.NewNop())
	pk1, pk2 := make([]byte, 48), make([]byte, 48)
	pk1[0], pk2[0] = 1, 2
	att := func(s, t uint64) *phase0.AttestationData {
		return &phase0.AttestationData{Slot: 9, Source: &phase0.Checkpoint{Epoch: phase0.Epoch(s)}, Target: &phase0.Checkpoint{Epoch: phase0.Epoch(t)}}
	}
	s0, t0 := zzNondetRange("s0", 0, zzE), zzNondetRange("t0", 0, zzE)
	s1, t1 := zzNondetRange("s1", 0, zzE), zzNondetRange("t1", 0, zzE)
	p0, p1 := zzNondetRange("p0", 1, zzE), zzNondetRange("p1", 1, zzE)
	zzAssume(st.SaveHighestAttestation(pk1, att(s0, t0)) == nil)
	zzAssume(st.SaveHighestProposal(pk1, phase0.Slot(p0)) == nil)

	attestation := zzNondetBool("attestationRecord")
	fails := zzNondetBool("writeFails")
	if fails {
		db.failAt = db.effects + 1
	}
	var err error
	if attestation {
		if zzNondetBool("updateInPlace") {
			// the slashing-protection library's own pattern: retrieve the record, raise it in place, save the same object
			cur, _, _ := st.RetrieveHighestAttestation(pk1)
			zzAssume(cur != nil && cur.Source != nil && cur.Target != nil)
			cur.Source.Epoch, cur.Target.Epoch = phase0.Epoch(s1), phase0.Epoch(t1)
			err = st.SaveHighestAttestation(pk1, cur)
			zzReach("updated-in-place")
		} else {
			err = st.SaveHighestAttestation(pk1, att(s1, t1))
		}
	} else {
		err = st.SaveHighestProposal(pk1, phase0.Slot(p1))
	}
	db.failAt = 0
	if fails {
		zzReach("write-failed")
		zzAssert(err != nil, "a-failed-record-write-is-reported")
	}
	ga, fa, ea := st.RetrieveHighestAttestation(pk1)
	gp, fp, ep := st.RetrieveHighestProposal(pk1)
	zzAssert(ea == nil && fa && ga != nil && ga.Source != nil && ga.Target != nil, "attestation-record-readable")
	zzAssert(ep == nil && fp, "proposal-record-readable")
	if ga != nil && ga.Source != nil && ga.Target != nil {
		if attestation && err == nil {
			zzReach("saved")
			zzAssert(uint64(ga.Source.Epoch) == s1 && uint64(ga.Target.Epoch) == t1, "a-save-reported-as-successful-is-read-back-unchanged")
		} else {
			zzAssert(uint64(ga.Source.Epoch) == s0 && uint64(ga.Target.Epoch) == t0, "a-failed-or-unrelated-write-leaves-the-attestation-record")
		}
	}
	if !attestation && err == nil {
		zzAssert(uint64(gp) == p1, "a-saved-proposal-slot-is-read-back-unchanged")
	} else {
		zzAssert(uint64(gp) == p0, "a-failed-or-unrelated-write-leaves-the-proposal-record")
	}
	// restart: a fresh storage object over the same database reads the same records
	st2 := NewSignerStorage(db, &zzBeacon{slot: 64}, zap.NewNop())
	ra, rfa, rea := st2.RetrieveHighestAttestation(pk1)
	rp, rfp, rep := st2.RetrieveHighestProposal(pk1)
	zzAssert(rea == nil && rfa && ra != nil && ra.Source != nil && ra.Target != nil && rep == nil && rfp, "records-readable-after-restart")
	if ra != nil && ra.Source != nil && ra.Target != nil && ga != nil && ga.Source != nil && ga.Target != nil {
		zzAssert(ra.Source.Epoch == ga.Source.Epoch && ra.Target.Epoch == ga.Target.Epoch, "attestation-record-survives-a-restart-unchanged")
	}
	zzAssert(rp == gp, "proposal-record-survives-a-restart-unchanged")
	// records are per key
	_, f2, e2 := st.RetrieveHighestAttestation(pk2)
	_, f3, e3 := st.RetrieveHighestProposal(pk2)
	zzAssert(e2 == nil && !f2 && e3 == nil && !f3, "no-record-for-another-key")
	// removal
	zzAssume(st.RemoveHighestAttestation(pk1) == nil && st.RemoveHighestProposal(pk1) == nil)
	_, f4, e4 := st.RetrieveHighestAttestation(pk1)
	_, f5, e5 := st.RetrieveHighestProposal(pk1)
	zzAssert(e4 == nil && !f4 && e5 == nil && !f5, "removed-records-are-not-found")
	zzReach("end")
}
