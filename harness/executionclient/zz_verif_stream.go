package executionclient

// C13: the real StreamLogs / streamLogsToChan / fetchLogsInBatches / PackLogs goroutines against a scripted
// chain. The three ethclient calls and reconnect are redirected to the fakes below (contract only: a
// subscription delivers heads and may error; FilterLogs returns the chain's logs of a block range or fails).

import (
	"context"
	"errors"
	"math/big"

	"github.com/ethereum/go-ethereum"
	ethtypes "github.com/ethereum/go-ethereum/core/types"
	"github.com/ethereum/go-ethereum/ethclient"
	"go.uber.org/zap"
)

type zzSub struct{ errc chan error }

func (s *zzSub) Err() <-chan error { return s.errc }
func (s *zzSub) Unsubscribe()      {}

const zzMaxBlock = 24

var (
	zzHeads       chan<- *ethtypes.Header
	zzCurSub      *zzSub
	zzSubCalls    int
	zzSubFailAt   int // index (1-based) of the SubscribeNewHead call that fails, 0 = none
	zzFetchCalls  int
	zzFetchFailAt int // index (1-based) of the FilterLogs call that fails, 0 = none
	zzNLogs       [zzMaxBlock + 1]int // -1 = not yet chosen
	zzRemoved     [zzMaxBlock + 1]bool
	zzReconnects  int
	zzFrom        uint64
)

func zzSubscribeNewHead(c *ethclient.Client, ctx context.Context, ch chan<- *ethtypes.Header) (ethereum.Subscription, error) {
	zzSubCalls++
	if zzSubCalls == zzSubFailAt {
		return nil, errors.New("zz: subscribe failed")
	}
	zzHeads = ch
	zzCurSub = &zzSub{errc: make(chan error)}
	return zzCurSub, nil
}

func zzBlockLogs(b uint64) []ethtypes.Log {
	if b > zzMaxBlock {
		return nil
	}
	if zzNLogs[b] < 0 {
		// every block may or may not emit registry logs; one block (start+1) may emit two, the first of them "removed"
		if zzNondetBool("hasLogs") {
			zzNLogs[b] = 1
			if b == zzFrom+1 && zzNondetBool("twoLogsFirstRemoved") {
				zzNLogs[b] = 2
				zzRemoved[b] = true
			}
		} else {
			zzNLogs[b] = 0
		}
	}
	var out []ethtypes.Log
	for i := 0; i < zzNLogs[b]; i++ {
		out = append(out, ethtypes.Log{BlockNumber: b, Index: uint(i), Removed: i == 0 && zzRemoved[b]})
	}
	return out
}

func zzFilterLogs(c *ethclient.Client, ctx context.Context, q ethereum.FilterQuery) ([]ethtypes.Log, error) {
	zzFetchCalls++
	if zzFetchCalls == zzFetchFailAt {
		return nil, errors.New("zz: fetch failed")
	}
	from, to := q.FromBlock.Uint64(), q.ToBlock.Uint64()
	var out []ethtypes.Log
	for b := from; b <= to && b <= zzMaxBlock; b++ {
		out = append(out, zzBlockLogs(b)...)
	}
	return out, nil
}

func zzReconnect(ec *ExecutionClient, ctx context.Context) { zzReconnects++; zzHeads = nil; zzCurSub = nil }

type zzEntry struct {
	block uint64
	logs  []ethtypes.Log
}

func ZZHarnessStream() {
	for i := range zzNLogs {
		zzNLogs[i] = -1
	}
	follow := zzParam("FOLLOW")
	batch := zzParam("BATCH")
	k := int(zzParam("K"))
	ec := &ExecutionClient{logger: zap.NewNop(), metrics: nopMetrics{}, followDistance: follow, logBatchSize: batch,
		closed: make(chan struct{}), client: new(ethclient.Client)}
	from := zzConcretizeU64(zzNondetRange("from", 1, 3))
	zzFrom = from
	// fault script: at most one failing subscribe and one failing fetch, anywhere
	zzSubFailAt = zzChoose("subFailAt", 3)
	zzFetchFailAt = zzChoose("fetchFailAt", 4)
	out := ec.StreamLogs(context.Background(), from)
	var got []zzEntry
	drain := func() {
		for i := 0; i < 64; i++ {
			zzYield()
			select {
			case b, ok := <-out:
				if !ok {
					return
				}
				got = append(got, zzEntry{b.BlockNumber, b.Logs})
			default:
				return
			}
		}
	}
	head := zzConcretizeU64(from - 1 + zzNondetRange("head0", 0, 2))
	subErrs := 0
	step := func(kind int) {
		drain()
		if zzHeads == nil {
			return // not subscribed (a subscribe just failed and the client is about to retry)
		}
		switch kind {
		case 0: // a new head
			head = zzConcretizeU64(head + zzNondetRange("headInc", 0, 2))
			zzAssume(head <= zzMaxBlock-2)
			zzHeads <- &ethtypes.Header{Number: new(big.Int).SetUint64(head)}
		case 2: // a head BELOW the highest one seen so far (a lagging node after a reconnect, a re-organisation)
			low := zzConcretizeU64(zzNondetRange("headLow", 0, 2))
			if head >= low+1 {
				zzHeads <- &ethtypes.Header{Number: new(big.Int).SetUint64(head - low - 1)}
				zzReach("lower-head")
			}
		case 1: // the subscription breaks
			if subErrs < 1 {
				subErrs++
				zzCurSub.errc <- errors.New("zz: connection dropped")
				zzReach("sub-error")
			}
		}
		drain()
	}
	nk := 2
	if zzParam("LOWHEADS") == 1 {
		nk = 3
	}
	for s := 0; s < k; s++ {
		step(zzChoose("event", nk))
	}
	// eventually healthy: keep announcing the current head until a head was processed after the last fault
	for round := 0; round < 3; round++ {
		for tries := 0; tries < 4 && zzHeads == nil; tries++ {
			drain()
		}
		zzAssert(zzHeads != nil, "client-resubscribes-after-faults")
		if zzHeads == nil {
			break
		}
		fetchesBefore, subsBefore := zzFetchCalls, zzSubCalls
		zzHeads <- &ethtypes.Header{Number: new(big.Int).SetUint64(head)}
		drain()
		faultFree := (zzFetchFailAt == 0 || fetchesBefore >= zzFetchFailAt) && (zzSubFailAt == 0 || subsBefore >= zzSubFailAt) && zzSubCalls == subsBefore
		if faultFree {
			break
		}
	}
	zzReach("end")
	// ---- oracle
	for i := 1; i < len(got); i++ {
		zzAssert(got[i].block > got[i-1].block, "block-numbers-strictly-increasing")
	}
	var last uint64
	hasLast := head >= follow
	if hasLast {
		last = head - follow
	}
	for _, e := range got {
		zzAssert(e.block >= from, "no-entry-before-requested-start")
		zzAssert(hasLast && e.block <= last, "no-entry-beyond-head-minus-follow-distance")
	}
	if hasLast {
		for b := from; b <= last; b++ {
			var want []ethtypes.Log
			for _, l := range zzBlockLogs(b) {
				if !l.Removed {
					want = append(want, l)
				}
			}
			n := 0
			for _, e := range got {
				if e.block == b {
					n++
					if len(want) > 0 {
						zzAssert(len(e.logs) == len(want), "entry-carries-all-non-removed-logs")
						for i := range e.logs {
							if i < len(want) {
								zzAssert(e.logs[i].Index == want[i].Index && e.logs[i].BlockNumber == b, "entry-logs-in-order")
							}
						}
					}
				}
			}
			if len(want) > 0 {
				zzReach("block-with-logs")
				zzAssert(n == 1, "every-block-with-logs-delivered-exactly-once")
			} else {
				zzAssert(n <= 1, "empty-marker-at-most-once")
			}
		}
	}
}
