package executionclient

// C13: the real StreamLogs / streamLogsToChan / fetchLogsInBatches / PackLogs goroutines against a scripted
// chain. The three ethclient calls and reconnect are redirected to the fakes below (contract only: a
// subscription delivers heads and may error; FilterLogs returns the chain's logs of a block range or fails).

import (
	"context"
	"errors"
	"math/big"

	"github.com/ethereum/go-ethereum"
	ethtypes "github.com/ethereum/go-ethereum/core/types"
	"github.com/ethereum/go-ethereum/ethclient"
	"go.uber.org/zap"
)

type zzSub struct{ errc chan error }

func (s *zzSub) Err() <-chan error { return s.errc }
func (s *zzSub) Unsubscribe()      {}

const zzMaxBlock = 24

var (
	zzHeads       chan<- *ethtypes.Header
	zzCurSub      *zzSub
	zzSubCalls    int
	zzSubFailAt   int // index (1-based) of the SubscribeNewHead call that fails, 0 = none
	zzFetchCalls  int
	zzFetchFailAt int                 // index (1-based) of the FilterLogs call that fails, 0 = none
	zzNLogs       [zzMaxBlock + 1]int // -1 = not yet chosen
	zzRemovedAt   [zzMaxBlock + 1][3]bool
	zzRich        bool
	zzHead        uint64
	zzReconnects  int
	zzFrom        uint64
)

func zzSubscribeNewHead(c *ethclient.Client, ctx context.Context, ch chan<- *ethtypes.Header) (ethereum.Subscription, error) {
	zzSubCalls++
	if zzSubCalls == zzSubFailAt {
		return nil, errors.New("zz: subscribe failed")
	}
	zzHeads = ch
	zzCurSub = &zzSub{errc: make(chan error)}
	return zzCurSub, nil
}

func zzBlockLogs(b uint64) []ethtypes.Log {
	if b > zzMaxBlock {
		return nil
	}
	if zzNLogs[b] < 0 {
		if zzRich {
			// historical harness: 0..1 logs per block, 0..3 in block start+1, every log with its own "removed" flag
			max := 1
			if b == zzFrom+1 {
				max = 3
			}
			zzNLogs[b] = zzChoose("nlogs", max+1)
			for i := 0; i < zzNLogs[b]; i++ {
				zzRemovedAt[b][i] = zzNondetBool("removed")
			}
		} else if zzNondetBool("hasLogs") {
			// every block may or may not emit registry logs; one block (start+1) may emit two, the first of them "removed"
			zzNLogs[b] = 1
			if b == zzFrom+1 && zzNondetBool("twoLogsFirstRemoved") {
				zzNLogs[b] = 2
				zzRemovedAt[b][0] = true
			}
		} else {
			zzNLogs[b] = 0
		}
	}
	var out []ethtypes.Log
	for i := 0; i < zzNLogs[b]; i++ {
		out = append(out, ethtypes.Log{BlockNumber: b, Index: uint(i), Removed: zzRemovedAt[b][i]})
	}
	return out
}

func zzBlockNumber(c *ethclient.Client, ctx context.Context) (uint64, error) { return zzHead, nil }

func zzFilterLogs(c *ethclient.Client, ctx context.Context, q ethereum.FilterQuery) ([]ethtypes.Log, error) {
	zzFetchCalls++
	if zzFetchCalls == zzFetchFailAt {
		return nil, errors.New("zz: fetch failed")
	}
	from, to := q.FromBlock.Uint64(), q.ToBlock.Uint64()
	var out []ethtypes.Log
	for b := from; b <= to && b <= zzMaxBlock; b++ {
		out = append(out, zzBlockLogs(b)...)
	}
	return out, nil
}

func zzReconnect(ec *ExecutionClient, ctx context.Context) {
	zzReconnects++
	zzHeads = nil
	zzCurSub = nil
}

type zzEntry struct {
	block uint64
	logs  []ethtypes.Log
}

func ZZHarnessStream() {
	for i := range zzNLogs {
		zzNLogs[i] = -1
	}
	follow := zzParam("FOLLOW")
	batch := zzParam("BATCH")
	k := int(zzParam("K"))
	ec := &ExecutionClient{logger: zap.NewNop(), metrics: nopMetrics{}, followDistance: follow, logBatchSize: batch,
		closed: make(chan struct{}), client: new(ethclient.Client)}
	from := zzConcretizeU64(zzNondetRange("from", 1, 3))
	zzFrom = from
	// fault script: at most one failing subscribe and one failing fetch, anywhere
	zzSubFailAt = zzChoose("subFailAt", 3)
	zzFetchFailAt = zzChoose("fetchFailAt", 4)
	out := ec.StreamLogs(context.Background(), from)
	var got []zzEntry
	drain := func() {
		for i := 0; i < 64; i++ {
			zzYield()
			select {
			case b, ok := <-out:
				if !ok {
					return
				}
				got = append(got, zzEntry{b.BlockNumber, b.Logs})
			default:
				return
			}
		}
	}
	head := zzConcretizeU64(from - 1 + zzNondetRange("head0", 0, 2))
	subErrs := 0
	step := func(kind int) {
		drain()
		if zzHeads == nil {
			return // not subscribed (a subscribe just failed and the client is about to retry)
		}
		switch kind {
		case 0: // a new head
			head = zzConcretizeU64(head + zzNondetRange("headInc", 0, 2))
			zzAssume(head <= zzMaxBlock-2)
			zzHeads <- &ethtypes.Header{Number: new(big.Int).SetUint64(head)}
		case 2: // a head BELOW the highest one seen so far (a lagging node after a reconnect, a re-organisation)
			low := zzConcretizeU64(zzNondetRange("headLow", 0, 2))
			if head >= low+1 {
				zzHeads <- &ethtypes.Header{Number: new(big.Int).SetUint64(head - low - 1)}
				zzReach("lower-head")
			}
		case 1: // the subscription breaks
			if subErrs < 1 {
				subErrs++
				zzCurSub.errc <- errors.New("zz: connection dropped")
				zzReach("sub-error")
			}
		}
		drain()
	}
	nk := 2
	if zzParam("LOWHEADS") == 1 {
		nk = 3
	}
	for s := 0; s < k; s++ {
		step(zzChoose("event", nk))
	}
	// eventually healthy: keep announcing the current head until a head was processed after the last fault
	for round := 0; round < 3; round++ {
		for tries := 0; tries < 4 && zzHeads == nil; tries++ {
			drain()
		}
		zzAssert(zzHeads != nil, "client-resubscribes-after-faults")
		if zzHeads == nil {
			break
		}
		fetchesBefore, subsBefore := zzFetchCalls, zzSubCalls
		zzHeads <- &ethtypes.Header{Number: new(big.Int).SetUint64(head)}
		drain()
		faultFree := (zzFetchFailAt == 0 || fetchesBefore >= zzFetchFailAt) && (zzSubFailAt == 0 || subsBefore >= zzSubFailAt) && zzSubCalls == subsBefore
		if faultFree {
			break
		}
	}
	zzReach("end")
	zzOracle(got, from, head, follow)
}

// zzOracle: the delivered sequence against the chain of this path (property C13).
func zzOracle(got []zzEntry, from, head, follow uint64) {
	for i := 1; i < len(got); i++ {
		zzAssert(got[i].block > got[i-1].block, "block-numbers-strictly-increasing")
	}
	var last uint64
	hasLast := head >= follow
	if hasLast {
		last = head - follow
	}
	for _, e := range got {
		zzAssert(e.block >= from, "no-entry-before-requested-start")
		zzAssert(hasLast && e.block <= last, "no-entry-beyond-head-minus-follow-distance")
	}
	if hasLast {
		for b := from; b <= last; b++ {
			var want []ethtypes.Log
			for _, l := range zzBlockLogs(b) {
				if !l.Removed {
					want = append(want, l)
				}
			}
			n := 0
			for _, e := range got {
				if e.block == b {
					n++
					zzAssert(len(e.logs) == len(want), "entry-carries-exactly-the-non-removed-logs")
					for i := range e.logs {
						if i < len(want) {
							zzAssert(e.logs[i].Index == want[i].Index && e.logs[i].BlockNumber == b, "entry-logs-in-order")
						}
					}
				}
			}
			if len(want) > 0 {
				zzReach("block-with-logs")
				zzAssert(n == 1, "every-block-with-logs-delivered-exactly-once")
			} else {
				zzAssert(n <= 1, "empty-marker-at-most-once")
			}
		}
	}
	// no log marked "removed" is ever handed over
	for _, e := range got {
		for _, l := range e.logs {
			zzAssert(!l.Removed, "no-removed-log-is-delivered")
		}
	}
}

// ZZHarnessHistorical: the public FetchHistoricalLogs over a three-block range with a rich distribution of logs
// (0..1 per block, 0..3 in the middle block, every log with its own symbolic "removed" flag - so runs of adjacent
// removed logs inside a block and across block boundaries occur), batch size BATCH, follow distance FOLLOW, no faults.
func ZZHarnessHistorical() {
	for i := range zzNLogs {
		zzNLogs[i] = -1
	}
	zzRich = true
	follow := zzParam("FOLLOW")
	batch := zzParam("BATCH")
	ec := &ExecutionClient{logger: zap.NewNop(), metrics: nopMetrics{}, followDistance: follow, logBatchSize: batch,
		closed: make(chan struct{}), client: new(ethclient.Client)}
	from := zzConcretizeU64(zzNondetRange("from", 1, 2))
	zzFrom = from
	head := zzConcretizeU64(from + follow + zzNondetRange("span", 0, 2))
	zzHead = head
	logs, errs, err := ec.FetchHistoricalLogs(context.Background(), from)
	zzAssert(err == nil, "historical-fetch-starts")
	if err != nil {
		return
	}
	var got []zzEntry
	for b := range logs {
		got = append(got, zzEntry{b.BlockNumber, b.Logs})
	}
	for e := range errs {
		zzAssert(e == nil, "historical-fetch-reports-no-error-without-faults")
	}
	zzReach("end")
	zzOracle(got, from, head, follow)
	// without faults every block with non-removed logs is there (checked by the oracle) and the range is complete
}
