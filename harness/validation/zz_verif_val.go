package validation

// C08 / C09 harnesses: the real validateConsensusMessage / validatePartialSignatureMessage on a fully
// symbolic decoded message, an arbitrary prior per-signer state and a symbolic clock.
// C08: the engine reports every feasible panic. C09: accept => reference predicate (written from the
// property text), and the recorded post-state reflects the accepted message.

import (
	"errors"
	"time"

	"github.com/attestantio/go-eth2-client/spec/phase0"
	specqbft "github.com/bloxapp/ssv-spec/qbft"
	spectypes "github.com/bloxapp/ssv-spec/types"
	"github.com/cornelk/hashmap"
	"go.uber.org/zap"

	"github.com/bloxapp/ssv/monitoring/metricsreporter"
	"github.com/bloxapp/ssv/networkconfig"
	"github.com/bloxapp/ssv/operator/keys"
	"github.com/bloxapp/ssv/protocol/v2/blockchain/beacon"
	"github.com/bloxapp/ssv/protocol/v2/qbft/roundtimer"
	ssvtypes "github.com/bloxapp/ssv/protocol/v2/types"
)

const zzGenesis = 1_600_000_000

type zzBeacon struct{ now int64 }

func (b *zzBeacon) ForkVersion() [4]byte           { return [4]byte{} }
func (b *zzBeacon) MinGenesisTime() uint64         { return zzGenesis }
func (b *zzBeacon) SlotDurationSec() time.Duration { return 12 * time.Second }
func (b *zzBeacon) SlotsPerEpoch() uint64          { return 32 }
func (b *zzBeacon) EstimatedCurrentSlot() phase0.Slot {
	return b.EstimatedSlotAtTime(b.now)
}
func (b *zzBeacon) EstimatedSlotAtTime(t int64) phase0.Slot {
	if t < zzGenesis {
		return 0
	}
	return phase0.Slot(uint64(t-zzGenesis) / 12)
}
func (b *zzBeacon) EstimatedTimeAtSlot(slot phase0.Slot) int64 { return zzGenesis + int64(slot)*12 }
func (b *zzBeacon) EstimatedCurrentEpoch() phase0.Epoch {
	return b.EstimatedEpochAtSlot(b.EstimatedCurrentSlot())
}
func (b *zzBeacon) EstimatedEpochAtSlot(slot phase0.Slot) phase0.Epoch { return phase0.Epoch(slot / 32) }
func (b *zzBeacon) FirstSlotAtEpoch(epoch phase0.Epoch) phase0.Slot   { return phase0.Slot(epoch * 32) }
func (b *zzBeacon) EpochStartTime(epoch phase0.Epoch) time.Time {
	return b.GetSlotStartTime(b.FirstSlotAtEpoch(epoch))
}
func (b *zzBeacon) GetSlotStartTime(slot phase0.Slot) time.Time {
	return time.Unix(b.EstimatedTimeAtSlot(slot), 0)
}
func (b *zzBeacon) GetSlotEndTime(slot phase0.Slot) time.Time        { return b.GetSlotStartTime(slot + 1) }
func (b *zzBeacon) IsFirstSlotOfEpoch(slot phase0.Slot) bool         { return slot%32 == 0 }
func (b *zzBeacon) GetEpochFirstSlot(epoch phase0.Epoch) phase0.Slot { return b.FirstSlotAtEpoch(epoch) }
func (b *zzBeacon) EpochsPerSyncCommitteePeriod() uint64             { return 256 }
func (b *zzBeacon) EstimatedSyncCommitteePeriodAtEpoch(epoch phase0.Epoch) uint64 {
	return uint64(epoch) / 256
}
func (b *zzBeacon) FirstEpochOfSyncPeriod(period uint64) phase0.Epoch { return phase0.Epoch(period * 256) }
func (b *zzBeacon) LastSlotOfSyncPeriod(period uint64) phase0.Slot {
	return phase0.Slot((period+1)*256*32 - 1)
}
func (b *zzBeacon) GetNetwork() beacon.Network                { return beacon.Network{} }
func (b *zzBeacon) GetBeaconNetwork() spectypes.BeaconNetwork { return spectypes.PraterNetwork }

// zzValHashDataRoot: collision-free stand-in for sha256 over consensus values (injective on len<=31).
func zzValHashDataRoot(data []byte) ([32]byte, error) {
	var r [32]byte
	r[0] = byte(len(data))
	copy(r[1:], data)
	return r, nil
}

var zzCommittees = map[int][]spectypes.OperatorID{
	4: {2, 5, 6, 9},
	7: {2, 5, 6, 9, 11, 12, 20},
}

var zzRoles = []spectypes.BeaconRole{spectypes.BNRoleAttester, spectypes.BNRoleAggregator, spectypes.BNRoleProposer,
	spectypes.BNRoleSyncCommittee, spectypes.BNRoleSyncCommitteeContribution, spectypes.BNRoleValidatorRegistration, spectypes.BNRoleVoluntaryExit}

func zzShare(n int) *ssvtypes.SSVShare {
	ids := zzCommittees[n]
	f := (n - 1) / 3
	sh := &ssvtypes.SSVShare{Share: spectypes.Share{OperatorID: ids[1], Quorum: uint64(2*f + 1), PartialQuorum: uint64(f + 1)}}
	for _, id := range ids {
		sh.Committee = append(sh.Committee, &spectypes.Operator{OperatorID: id})
	}
	sh.Metadata.BeaconMetadata = &beacon.ValidatorMetadata{Index: 7}
	return sh
}

func zzValidator(now int64) *messageValidator {
	return &messageValidator{
		logger:                  zap.NewNop(),
		metrics:                 metricsreporter.NewNop(),
		netCfg:                  networkconfig.NetworkConfig{Beacon: &zzBeacon{now: now}, Domain: spectypes.DomainType{0, 0, 3, 1}},
		operatorIDToPubkeyCache: hashmap.New[spectypes.OperatorID, keys.OperatorPublicKey](),
	}
}

func zzValInCommittee(sh *ssvtypes.SSVShare, id spectypes.OperatorID) bool {
	for _, o := range sh.Committee {
		if o.OperatorID == id {
			return true
		}
	}
	return false
}

func zzMaxRound(role spectypes.BeaconRole) uint64 {
	switch role {
	case spectypes.BNRoleAttester, spectypes.BNRoleAggregator:
		return 12
	case spectypes.BNRoleProposer, spectypes.BNRoleSyncCommittee, spectypes.BNRoleSyncCommitteeContribution:
		return 6
	}
	return 0
}

func zzHeight() uint64 {
	if zzParam("WIDE") == 1 {
		return zzNondetU64("height")
	}
	return zzNondetRange("height", 0, 1<<28)
}

func zzRound() uint64 {
	if zzParam("WIDE") == 1 {
		return zzNondetU64("round")
	}
	return zzNondetRange("round", 0, 1<<31)
}

// ZZHarnessConsensus: role ROLE (index into zzRoles), committee size N.
func ZZHarnessConsensus() {
	n := int(zzParam("N"))
	role := zzRoles[int(zzParam("ROLE"))]
	var now int64
	if zzParam("WIDE") == 1 {
		// full 64-bit height: clock fixed (the time arithmetic wraps; only the panic-freedom and the
		// non-timing rules are of interest here)
		now = zzGenesis + 1000*12 + 5
	} else {
		now = int64(zzNondetRange("now", zzGenesis, zzGenesis+2_000_000))
	}
	mv := zzValidator(now)
	share := zzShare(n)
	pk := make([]byte, 48)
	msgID := spectypes.NewMsgID(mv.netCfg.Domain, pk, role)

	// the message
	sig := make([]byte, 96)
	if zzNondetBool("badsiglen") {
		sig = make([]byte, 95)
	}
	sig[0] = zzNondetByte("sig0")
	wide := zzParam("WIDE") == 1
	lite := zzParam("LITE") == 1 // one signer, no justifications: the role-dependent rules at a fraction of the paths
	nsig := 1
	if !wide && !lite {
		nsig = zzChoose("nsigners", n+2)
	}
	signers := make([]spectypes.OperatorID, nsig)
	for i := range signers {
		signers[i] = zzNondetU64("signer")
	}
	var root [32]byte
	root[0] = zzNondetByte("root0")
	root[1] = zzNondetByte("root1")
	var fullData []byte
	if zzNondetBool("hasdata") {
		fullData = []byte{zzNondetByte("data0")}
	}
	msg := &specqbft.SignedMessage{
		Signature: sig,
		Signers:   signers,
		FullData:  fullData,
		Message: specqbft.Message{
			MsgType:    specqbft.MessageType(zzNondetU64("type")),
			Height:     specqbft.Height(zzHeight()),
			Round:      specqbft.Round(zzRound()),
			Identifier: msgID[:],
			Root:       root,
		},
	}
	justKind := 0
	if !wide && !lite {
		justKind = zzChoose("just", 3)
	}
	switch justKind {
	case 1:
		msg.Message.RoundChangeJustification = [][]byte{{1}}
	case 2:
		msg.Message.PrepareJustification = [][]byte{{1}}
	}

	// arbitrary prior state of the first signer (covers "after any history")
	var pre *SignerState
	cs := mv.consensusState(msgID)
	if nsig > 0 && !wide && zzNondetBool("haveState") {
		pre = &SignerState{
			Slot:  phase0.Slot(zzNondetU64("stSlot")),
			Round: specqbft.Round(zzNondetU64("stRound")),
			MessageCounts: MessageCounts{
				Proposal:    int(zzNondetRange("cProposal", 0, 2)),
				Prepare:     int(zzNondetRange("cPrepare", 0, 2)),
				Commit:      int(zzNondetRange("cCommit", 0, 2)),
				Decided:     int(zzNondetRange("cDecided", 0, 9)),
				RoundChange: int(zzNondetRange("cRoundChange", 0, 2)),
			},
			EpochDuties: int(zzNondetRange("epochDuties", 0, 4)),
		}
		if zzNondetBool("stHasProposal") {
			pre.ProposalData = []byte{zzNondetByte("stData0")}
		}
		cs.Signers.Set(signers[0], pre)
	}
	var preCopy SignerState
	if pre != nil {
		preCopy = *pre
	}
	// an aggregated message is checked against the recorded state of EVERY signer: arbitrary prior state of the
	// last signer too
	var pre2 *SignerState
	var pre2Copy SignerState
	if nsig >= 2 && !wide && zzNondetBool("haveState2") {
		pre2 = &SignerState{
			Slot:          phase0.Slot(zzNondetU64("st2Slot")),
			Round:         specqbft.Round(zzNondetU64("st2Round")),
			MessageCounts: MessageCounts{Decided: int(zzNondetRange("c2Decided", 0, 9))},
		}
		pre2Copy = *pre2
		cs.Signers.Set(signers[nsig-1], pre2)
	}
	sigOK := zzNondetBool("sigOK")
	verifier := func() error {
		if sigOK {
			return nil
		}
		return errors.New("bad signature")
	}
	receivedAt := time.Unix(now, 0)

	_, _, err := mv.validateConsensusMessage(share, msg, msgID, receivedAt, verifier)

	if err != nil {
		zzReach("rejected")
		var ve Error
		if errors.As(err, &ve) {
			zzReach("err:" + ve.text)
		} else {
			zzReach("untyped-error")
		}
		return
	}
	zzReach("accepted")
	if zzParam("RULES") == 0 {
		return // C08 run: only panic-freedom is the subject; the gossip rules are asserted under C09
	}
	t := uint64(msg.Message.MsgType)
	h := uint64(msg.Message.Height)
	r := uint64(msg.Message.Round)
	zzAssert(role != spectypes.BNRoleValidatorRegistration && role != spectypes.BNRoleVoluntaryExit, "no-consensus-for-non-consensus-roles")
	zzAssert(t <= 3, "known-qbft-type")
	zzAssert(len(sig) == 96, "signature-length")
	zzAssert(sigOK, "signature-verified")
	zzAssert(nsig >= 1, "has-signers")
	for i, s := range signers {
		zzAssert(s != 0, "signer-nonzero")
		zzAssert(zzValInCommittee(share, s), "signer-in-committee")
		if i > 0 {
			zzAssert(signers[i-1] < s, "signers-sorted-distinct")
		}
	}
	if nsig > 1 {
		zzAssert(t == uint64(specqbft.CommitMsgType), "multi-signer-only-commit")
		zzAssert(uint64(nsig) >= share.Quorum && nsig <= n, "multi-signer-quorum-size")
	}
	zzAssert(r >= 1, "round>=1")
	zzAssert(r <= zzMaxRound(role), "round<=max-for-role")
	if t == uint64(specqbft.ProposalMsgType) && nsig == 1 {
		idx := (h%uint64(n) + r - 1) % uint64(n)
		if h == 0 {
			idx = (r - 1) % uint64(n)
		}
		zzAssert(signers[0] == share.Committee[idx].OperatorID, "proposal-from-leader")
	}
	if zzParam("WIDE") == 1 {
		// the engine's time model does not saturate like time.Time.Sub does on int64 overflow; with
		// unbounded heights only panic-freedom and the clock-independent rules above are claimed
		return
	}
	// slot window
	cur := uint64(now-zzGenesis) / 12
	zzAssert(h <= cur+1, "slot-not-in-future")
	// (inclusion window of the role: one epoch for attestations / aggregates, one slot for blocks and sync messages;
	// the tolerance on top of it is the code's own named constant, so that re-tuning it is not reported)
	ttl := uint64(32 + lateSlotAllowance)
	if role == spectypes.BNRoleProposer || role == spectypes.BNRoleSyncCommittee || role == spectypes.BNRoleSyncCommitteeContribution {
		ttl = 1 + lateSlotAllowance
	}
	zzAssert(h+ttl+1 >= cur, "slot-not-too-old")
	// round window: estimated round from time since slot start (2s quick rounds up to 8, then 2 min)
	if h <= cur {
		since := uint64(now) - (zzGenesis + h*12)
		quick, slow, thr := uint64(roundtimer.QuickTimeout/time.Second), uint64(roundtimer.SlowTimeout/time.Second), uint64(roundtimer.QuickTimeoutThreshold)
		est := uint64(1) + since/quick
		if est > thr {
			est = thr + 1 + (since-thr*quick)/slow
		}
		zzAssert(r <= est+allowedRoundsInFuture, "round-within-estimate")
	} else {
		zzAssert(r <= 1+allowedRoundsInFuture, "round-within-estimate")
	}
	// full data must match the root when it is attached to a type that carries it
	if len(fullData) != 0 && (t == uint64(specqbft.ProposalMsgType) || t == uint64(specqbft.RoundChangeMsgType) || (t == uint64(specqbft.CommitMsgType) && nsig > 1)) {
		hr, _ := zzValHashDataRoot(fullData)
		zzAssert(hr == root, "fulldata-hashes-to-root")
	}
	// justifications
	if t == uint64(specqbft.PrepareMsgType) || t == uint64(specqbft.CommitMsgType) {
		zzAssert(len(msg.Message.RoundChangeJustification) == 0 && len(msg.Message.PrepareJustification) == 0, "no-justifications-on-prepare-commit")
	}
	zzAssert(len(msg.Message.PrepareJustification) == 0 || t == uint64(specqbft.ProposalMsgType), "prepare-justifications-only-on-proposal")
	// per-signer limits against the prior state
	if pre != nil {
		zzAssert(h >= uint64(preCopy.Slot), "no-slot-regression")
		if h == uint64(preCopy.Slot) {
			zzAssert(r >= uint64(preCopy.Round), "no-round-regression")
			if r == uint64(preCopy.Round) {
				switch {
				case t == uint64(specqbft.ProposalMsgType):
					zzAssert(preCopy.MessageCounts.Proposal < 1, "one-proposal-per-round")
				case t == uint64(specqbft.PrepareMsgType):
					zzAssert(preCopy.MessageCounts.Prepare < 1, "one-prepare-per-round")
				case t == uint64(specqbft.CommitMsgType) && nsig == 1:
					zzAssert(preCopy.MessageCounts.Commit < 1, "one-commit-per-round")
				case t == uint64(specqbft.RoundChangeMsgType):
					zzAssert(preCopy.MessageCounts.RoundChange < 1, "one-roundchange-per-round")
				case t == uint64(specqbft.CommitMsgType):
					zzAssert(preCopy.MessageCounts.Decided < n*((n-1)/3+1), "decided-limit")
				}
				if len(fullData) != 0 && preCopy.ProposalData != nil && (t == uint64(specqbft.ProposalMsgType) || t == uint64(specqbft.RoundChangeMsgType) || nsig > 1) {
					zzAssert(preCopy.ProposalData[0] == fullData[0], "no-second-proposal-with-different-data")
				}
			}
		}
	}
	if pre2 != nil && signers[nsig-1] != signers[0] {
		zzReach("last-signer-had-state")
		zzAssert(h >= uint64(pre2Copy.Slot), "no-slot-regression-for-any-signer-of-an-aggregate")
		if h == uint64(pre2Copy.Slot) {
			zzAssert(r >= uint64(pre2Copy.Round), "no-round-regression-for-any-signer-of-an-aggregate")
			if r == uint64(pre2Copy.Round) && t == uint64(specqbft.CommitMsgType) {
				zzAssert(pre2Copy.MessageCounts.Decided < n*((n-1)/3+1), "decided-limit-for-any-signer-of-an-aggregate")
			}
		}
		st2 := cs.GetSignerState(signers[nsig-1])
		zzAssert(st2 != nil && uint64(st2.Slot) >= uint64(pre2Copy.Slot), "post-state-slot-never-decreases-for-any-signer")
	}
	// the recorded state never moves backwards: this is what lets one step from an ARBITRARY prior state stand
	// for "after every prefix of previously accepted messages"
	if pre != nil {
		st := cs.GetSignerState(signers[0])
		zzAssert(st != nil && uint64(st.Slot) >= uint64(preCopy.Slot), "post-state-slot-never-decreases")
		if st != nil && uint64(st.Slot) == uint64(preCopy.Slot) {
			zzAssert(uint64(st.Round) >= uint64(preCopy.Round), "post-state-round-never-decreases-within-a-slot")
			if st.Round == preCopy.Round {
				c, p := st.MessageCounts, preCopy.MessageCounts
				zzAssert(c.Proposal >= p.Proposal && c.Prepare >= p.Prepare && c.Commit >= p.Commit && c.Decided >= p.Decided && c.RoundChange >= p.RoundChange,
					"post-state-counters-never-decrease-within-a-round")
				if preCopy.ProposalData != nil {
					zzAssert(st.ProposalData != nil && st.ProposalData[0] == preCopy.ProposalData[0], "post-state-keeps-the-recorded-proposal-data")
				}
			}
		}
	}
	// post-state reflects the accepted message (so that the state abstraction is inductive)
	for _, s := range signers {
		st := cs.GetSignerState(s)
		zzAssert(st != nil, "post-state-exists")
		if st != nil {
			zzAssert(uint64(st.Slot) >= h, "post-slot>=msg-slot")
			if uint64(st.Slot) == h {
				zzAssert(uint64(st.Round) >= r, "post-round>=msg-round")
			}
			if s == signers[0] && uint64(st.Slot) == h && uint64(st.Round) == r {
				c := st.MessageCounts
				zzAssert(c.Proposal+c.Prepare+c.Commit+c.Decided+c.RoundChange >= 1, "post-count-recorded")
			}
		}
	}
}

// ZZHarnessPartial: validatePartialSignatureMessage on a fully symbolic partial-signature message.
func ZZHarnessPartial() {
	n := int(zzParam("N"))
	role := zzRoles[int(zzParam("ROLE"))]
	now := int64(zzNondetRange("now", zzGenesis, zzGenesis+2_000_000))
	mv := zzValidator(now)
	share := zzShare(n)
	pk := make([]byte, 48)
	msgID := spectypes.NewMsgID(mv.netCfg.Domain, pk, role)
	mkSig := func(name string) []byte {
		l := 96
		if zzNondetBool(name + "-badlen") {
			l = 95
		}
		s := make([]byte, l)
		s[0] = zzNondetByte(name + "-b0")
		return s
	}
	signer := zzNondetU64("signer")
	nmsg := zzChoose("nmsgs", 3)
	var slot uint64
	if zzParam("WIDE") == 1 {
		slot = zzNondetU64("slot")
	} else {
		slot = zzNondetRange("slot", 0, 1<<28)
	}
	pm := spectypes.PartialSignatureMessages{Type: spectypes.PartialSigMsgType(zzNondetU64("ptype")), Slot: phase0.Slot(slot)}
	for i := 0; i < nmsg; i++ {
		var root [32]byte
		root[0] = zzNondetByte("proot")
		pm.Messages = append(pm.Messages, &spectypes.PartialSignatureMessage{
			PartialSignature: mkSig("psig"), SigningRoot: root, Signer: zzNondetU64("msigner")})
	}
	msg := &spectypes.SignedPartialSignatureMessage{Message: pm, Signature: mkSig("sig"), Signer: signer}

	var pre *SignerState
	cs := mv.consensusState(msgID)
	if zzNondetBool("haveState") {
		pre = &SignerState{
			Slot:  phase0.Slot(zzNondetU64("stSlot")),
			Round: specqbft.Round(zzNondetRange("stRound", 0, 13)),
			MessageCounts: MessageCounts{
				PreConsensus:  int(zzNondetRange("cPre", 0, 3)),
				PostConsensus: int(zzNondetRange("cPost", 0, 3)),
				Proposal:      int(zzNondetRange("cProposal", 0, 1)),
				Prepare:       int(zzNondetRange("cPrepare", 0, 1)),
				Commit:        int(zzNondetRange("cCommit", 0, 1)),
				RoundChange:   int(zzNondetRange("cRoundChange", 0, 1)),
			},
			EpochDuties: int(zzNondetRange("epochDuties", 0, 4)),
		}
		if zzNondetBool("stHasProposal") {
			pre.ProposalData = []byte{0x5A}
		}
		cs.Signers.Set(signer, pre)
	}
	var preCopy SignerState
	if pre != nil {
		preCopy = *pre
	}
	sigOK := zzNondetBool("sigOK")
	verifier := func() error {
		if sigOK {
			return nil
		}
		return errors.New("bad signature")
	}
	_, err := mv.validatePartialSignatureMessage(share, msg, msgID, verifier)
	if err != nil {
		zzReach("rejected")
		var ve Error
		if errors.As(err, &ve) {
			zzReach("err:" + ve.text)
		} else {
			zzReach("untyped-error")
		}
		return
	}
	zzReach("accepted")
	if zzParam("RULES") == 0 {
		return
	}
	pt := msg.Message.Type
	okType := false
	switch role {
	case spectypes.BNRoleAttester, spectypes.BNRoleSyncCommittee:
		okType = pt == spectypes.PostConsensusPartialSig
	case spectypes.BNRoleAggregator:
		okType = pt == spectypes.PostConsensusPartialSig || pt == spectypes.SelectionProofPartialSig
	case spectypes.BNRoleProposer:
		okType = pt == spectypes.PostConsensusPartialSig || pt == spectypes.RandaoPartialSig
	case spectypes.BNRoleSyncCommitteeContribution:
		okType = pt == spectypes.PostConsensusPartialSig || pt == spectypes.ContributionProofs
	case spectypes.BNRoleValidatorRegistration:
		okType = pt == spectypes.ValidatorRegistrationPartialSig
	case spectypes.BNRoleVoluntaryExit:
		okType = pt == spectypes.VoluntaryExitPartialSig
	}
	zzAssert(okType, "partial-type-matches-role")
	zzAssert(signer != 0 && zzValInCommittee(share, signer), "partial-signer-in-committee")
	zzAssert(nmsg >= 1, "partial-has-messages")
	zzAssert(len(msg.Signature) == 96 && msg.Signature[0] != 0, "partial-signature-format")
	zzAssert(sigOK, "partial-signature-verified")
	for i, m := range msg.Message.Messages {
		zzAssert(m.Signer == signer, "partial-inner-signer-matches")
		zzAssert(len(m.PartialSignature) == 96 && m.PartialSignature[0] != 0, "partial-inner-signature-format")
		for j := 0; j < i; j++ {
			zzAssert(msg.Message.Messages[j].SigningRoot != m.SigningRoot, "partial-roots-distinct")
		}
	}
	if pre != nil {
		zzAssert(slot >= uint64(preCopy.Slot), "partial-no-slot-regression")
	}
	st := cs.GetSignerState(signer)
	zzAssert(st != nil && uint64(st.Slot) >= slot, "partial-post-state-slot")
	if pre != nil && st != nil && uint64(st.Slot) == uint64(preCopy.Slot) {
		// frame condition: a partial-signature message for the signer's current slot leaves the consensus part of the
		// state (round, per-round counters, recorded proposal) as it was - otherwise it would re-open the limits
		c, p := st.MessageCounts, preCopy.MessageCounts
		zzAssert(st.Round == preCopy.Round, "partial-keeps-the-round-of-the-current-slot")
		zzAssert(c.Proposal == p.Proposal && c.Prepare == p.Prepare && c.Commit == p.Commit && c.RoundChange == p.RoundChange && c.Decided == p.Decided,
			"partial-keeps-the-consensus-counters-of-the-current-slot")
		zzAssert(c.PreConsensus >= p.PreConsensus && c.PostConsensus >= p.PostConsensus, "partial-counters-never-decrease-within-a-slot")
		zzAssert((st.ProposalData == nil) == (preCopy.ProposalData == nil), "partial-keeps-the-recorded-proposal-data")
	}
	// slot window of the role (same windows as for consensus messages)
	if zzParam("WIDE") != 1 && role != spectypes.BNRoleValidatorRegistration && role != spectypes.BNRoleVoluntaryExit {
		cur := uint64(now-zzGenesis) / 12
		zzAssert(slot <= cur+1, "partial-slot-not-in-future")
		ttl := uint64(32 + lateSlotAllowance)
		if role == spectypes.BNRoleProposer || role == spectypes.BNRoleSyncCommittee || role == spectypes.BNRoleSyncCommitteeContribution {
			ttl = 1 + lateSlotAllowance
		}
		zzAssert(slot+ttl+1 >= cur, "partial-slot-not-too-old")
	}
}
