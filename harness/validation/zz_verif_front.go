package validation

// C08 / C09 front harness: the real validateP2PMessage / ValidatePubsubMessage -> validateSSVMessage ->
// validateConsensusMessage / validatePartialSignatureMessage on a pubsub message whose envelope, topic,
// message id (domain, role), type, payload size, validator state (unknown / liquidated / no metadata /
// any beacon status) and inner message are symbolic.
//
// Environment (contract-only): shares storage and operator registry are maps; the SSZ/JSON codecs of the
// network message and its body are identity codecs (decode = error or the structurally valid value the
// harness built); the operator RSA key is a model (signature bytes = [1, key id, len(payload), payload]).

import (
	"context"
	"errors"
	"sync"
	"time"

	eth2apiv1 "github.com/attestantio/go-eth2-client/api/v1"
	"github.com/attestantio/go-eth2-client/spec/phase0"
	specqbft "github.com/bloxapp/ssv-spec/qbft"
	spectypes "github.com/bloxapp/ssv-spec/types"
	"github.com/herumi/bls-eth-go-binary/bls"
	pubsub "github.com/libp2p/go-libp2p-pubsub"
	pspb "github.com/libp2p/go-libp2p-pubsub/pb"

	"github.com/bloxapp/ssv/network/commons"
	"github.com/bloxapp/ssv/operator/keys"
	operatorstorage "github.com/bloxapp/ssv/operator/storage"
	"github.com/bloxapp/ssv/protocol/v2/blockchain/beacon"
	ssvtypes "github.com/bloxapp/ssv/protocol/v2/types"
	registrystorage "github.com/bloxapp/ssv/registry/storage"
	"github.com/bloxapp/ssv/storage/basedb"
)

// ---- storage fakes

// the shares storage answers lazily (the choice is made when validation asks): 0 unknown validator,
// 1 known, 2 known without beacon metadata
type zzShares struct {
	registrystorage.Shares
	pk    []byte
	share *ssvtypes.SSVShare
	state int // -1 = not asked yet
}

func (s *zzShares) Get(_ basedb.Reader, pk []byte) *ssvtypes.SSVShare {
	if string(pk) != string(s.pk) {
		return nil
	}
	if s.state < 0 {
		s.state = zzChoose("share", 3)
	}
	switch s.state {
	case 0:
		return nil
	case 2:
		s.share.BeaconMetadata = nil
	}
	return s.share
}

type zzStore struct {
	operatorstorage.Storage
	shares *zzShares
}

func (s *zzStore) Shares() registrystorage.Shares { return s.shares }

// operators 2,5,6,9 are registered with a usable key, 7 with an unparseable key, 13 makes the lookup fail
func (s *zzStore) GetOperatorData(_ basedb.Reader, id spectypes.OperatorID) (*registrystorage.OperatorData, bool, error) {
	switch id {
	case 2, 5, 6, 9:
		return &registrystorage.OperatorData{ID: id, PublicKey: []byte{'o', 'p', byte(id)}}, true, nil
	case 7:
		return &registrystorage.OperatorData{ID: id, PublicKey: []byte("bad")}, true, nil
	case 13:
		return nil, false, errors.New("zz: storage error")
	}
	return nil, false, nil
}

// ---- RSA model

type zzRSAPub struct{ id byte }

func (k *zzRSAPub) Encrypt(data []byte) ([]byte, error) { return nil, errors.New("zz: not used") }
func (k *zzRSAPub) Base64() ([]byte, error)             { return []byte{'o', 'p', k.id}, nil }
func (k *zzRSAPub) Verify(data []byte, sig []byte) error {
	if zzRSAValid(k.id, data, sig) {
		return nil
	}
	return errors.New("zz: rsa verification failed")
}

func zzRSAValid(id byte, data []byte, sig []byte) bool {
	if len(sig) != 256 || len(data) > 8 {
		return false
	}
	if sig[0] != 1 || sig[1] != id || int(sig[2]) != len(data) {
		return false
	}
	for i := range data {
		if sig[3+i] != data[i] {
			return false
		}
	}
	return true
}

func zzPublicKeyFromString(s string) (keys.OperatorPublicKey, error) {
	if len(s) != 3 || s[0] != 'o' || s[1] != 'p' {
		return nil, errors.New("zz: malformed operator key")
	}
	return &zzRSAPub{id: s[2]}, nil
}

// the process-wide LRU cache in front of the (cgo) key deserialisation is skipped
func zzDeserializeBLSPublicKey(b []byte) (bls.PublicKey, error) {
	pk := bls.PublicKey{}
	err := pk.Deserialize(b)
	return pk, err
}

// ---- identity codecs

var (
	zzNetMsg      *spectypes.SSVMessage
	zzBodyC       *specqbft.SignedMessage
	zzBodyP       *spectypes.SignedPartialSignatureMessage
	zzDecodeCalls int
)

var zzBuildNetMsg func() *spectypes.SSVMessage

func zzDecodeNetworkMsg(data []byte) (*spectypes.SSVMessage, error) {
	if len(data) < 2 || data[0] != 0xEE || data[1] != 1 {
		return nil, errors.New("zz: undecodable network message")
	}
	if zzNetMsg == nil {
		zzNetMsg = zzBuildNetMsg() // built on demand: its shape choices fork only the paths that get here
	}
	return zzNetMsg, nil
}

var zzBodies []*specqbft.SignedMessage // data = [0xEE, i+1] names zzBodies[i]; otherwise zzBodyC

func zzFrontDecodeSigned(m *specqbft.SignedMessage, data []byte) error {
	zzDecodeCalls++
	if len(data) == 0 || data[0] != 0xEE {
		return errors.New("zz: undecodable")
	}
	if len(data) >= 2 && data[1] >= 1 && int(data[1]) <= len(zzBodies) {
		*m = *zzBodies[data[1]-1]
		return nil
	}
	*m = *zzBodyC
	return nil
}

func zzFrontDecodePartial(m *spectypes.SignedPartialSignatureMessage, data []byte) error {
	zzDecodeCalls++
	if len(data) == 0 || data[0] != 0xEE {
		return errors.New("zz: undecodable")
	}
	*m = *zzBodyP
	return nil
}

func zzFrontDecodeEvent(m *ssvtypes.EventMsg, data []byte) error {
	zzDecodeCalls++
	if len(data) == 0 || data[0] != 0xEE {
		return errors.New("zz: undecodable")
	}
	return nil
}

// ZZHarnessP2P. Params: VIA (0 validateP2PMessage with a chosen receive time, 1 ValidatePubsubMessage under
// the engine clock), BIG (1: oversize payloads are among the sizes), RULES (0: C08 only panic-freedom).
func ZZHarnessP2P() {
	via := zzParam("VIA") == 1
	// two instants: before (epoch 50) and after (epoch 150) the activation epoch (100) of signed envelopes
	now := int64(zzGenesis + 50*384 + 7)
	if zzNondetBool("afterActivation") {
		now = zzGenesis + 150*384 + 7
	}
	curSlot := uint64(now-zzGenesis) / 12
	mv := zzValidator(now)
	mv.netCfg.PermissionlessActivationEpoch = 100
	mv.validationLocks = map[spectypes.MessageID]*sync.Mutex{}

	// the validator the message is for
	pk := make([]byte, 48)
	pk[0] = 0x8A
	pk[5] = 0x11
	share := zzShare(4)
	share.ValidatorPubKey = pk
	share.Liquidated = zzNondetBool("liquidated")
	status := int(zzNondetRange("status", 0, 10))
	activation := zzNondetRange("activation", 0, 1<<20)
	share.BeaconMetadata = &beacon.ValidatorMetadata{Index: 7, Status: eth2apiv1.ValidatorState(status), ActivationEpoch: phase0.Epoch(activation)}
	shares := &zzShares{pk: pk, share: share, state: -1}
	mv.nodeStorage = &zzStore{shares: shares}

	// message id: domain and role symbolic
	var msgID spectypes.MessageID
	dom := mv.netCfg.Domain
	dom[3] = zzNondetByte("domain3")
	roleRaw := zzNondetRange("role", 0, 9)
	if zzParam("ROLES") == 0 {
		// quick tier: of the seven valid roles only the attester (role-specific rules are the subject of
		// ZZHarnessConsensus / ZZHarnessPartial per role); the invalid ones stay
		zzAssume(roleRaw == 0 || roleRaw > 6)
	}
	if zzNondetBool("roleHigh") {
		roleRaw += 1 << 24
	}
	msgID = spectypes.NewMsgID(dom, pk, spectypes.BeaconRole(roleRaw))

	// type and payload size
	mt := spectypes.MsgType(zzNondetRange("msgtype", 0, 300)) // 0 consensus, 1 partial signature, 2 DKG, 200 event
	sizes := []int{0, 2, maxPartialSignatureMsgSize, maxPartialSignatureMsgSize + 1}
	if zzParam("BIG") == 1 {
		sizes = append(sizes, maxConsensusMsgSize+1)
	}
	dlen := -1
	var data []byte
	zzNetMsg = nil
	zzBuildNetMsg = func() *spectypes.SSVMessage {
		dlen = sizes[zzChoose("datalen", len(sizes))]
		data = make([]byte, dlen)
		if dlen > 0 {
			data[0] = zzNondetByte("data0") // 0xEE decodes
		}
		return &spectypes.SSVMessage{MsgType: mt, MsgID: msgID, Data: data}
	}

	// inner messages (structurally valid, a few symbolic fields; the deep rules are the subject of
	// ZZHarnessConsensus / ZZHarnessPartial)
	sig := make([]byte, 96)
	sig[0] = zzNondetByte("sig0")
	var root [32]byte
	root[0] = zzNondetByte("root0")
	zzBodyC = &specqbft.SignedMessage{
		Signature: sig,
		Signers:   []spectypes.OperatorID{zzNondetU64("signer")},
		Message: specqbft.Message{
			MsgType:    specqbft.MessageType(zzNondetU64("type")),
			Height:     specqbft.Height(curSlot),
			Round:      specqbft.Round(zzNondetRange("round", 0, 1<<31)),
			Identifier: msgID[:],
			Root:       root,
		},
	}
	psig := make([]byte, 96)
	psig[0] = zzNondetByte("psig0")
	psigner := zzNondetU64("psigner")
	zzBodyP = &spectypes.SignedPartialSignatureMessage{
		Signature: psig,
		Signer:    psigner,
		Message: spectypes.PartialSignatureMessages{
			Type: spectypes.PartialSigMsgType(zzNondetU64("ptype")),
			Slot: phase0.Slot(curSlot),
			Messages: []*spectypes.PartialSignatureMessage{
				{PartialSignature: psig, SigningRoot: root, Signer: zzNondetU64("pmsigner")},
			},
		},
	}

	// envelope / pubsub payload
	plens := []int{0, 1, 2}
	if zzParam("BIG") == 1 {
		plens = append(plens, (4+56+8388668)+(4+56+8388668)/10+1)
	}
	plen := plens[zzChoose("payloadlen", len(plens))]
	payload := make([]byte, plen)
	if plen > 0 {
		payload[0] = 0xEE
	}
	if plen > 1 {
		payload[1] = zzNondetByte("payload1") // 1 decodes
	}
	enveloped := zzChoose("envelope", 3) // 0 bare payload, 1 enveloped, 2 truncated envelope
	var pdata []byte
	var envSig []byte
	var opid byte
	switch enveloped {
	case 0:
		pdata = payload
	case 1:
		envSig = make([]byte, 256)
		envSig[0] = zzNondetByte("env0")
		envSig[1] = zzNondetByte("env1")
		envSig[2] = zzNondetByte("env2")
		envSig[3] = zzNondetByte("env3")
		envSig[4] = zzNondetByte("env4")
		opid = zzNondetByte("opid")
		pdata = append(pdata, envSig...)
		pdata = append(pdata, opid, 0, 0, 0, 0, 0, 0, 0)
		pdata = append(pdata, payload...)
	case 2:
		pdata = make([]byte, 100)
	}

	// topic
	right := commons.ValidatorTopicID(pk)[0]
	topic := commons.GetTopicFullName(right)
	switch zzChoose("topic", 4) {
	case 1:
		topic = commons.GetTopicFullName(right + "1")
	case 2:
		topic = right
	case 3:
		topic = commons.GetTopicFullName("1" + right) // another subnet whose decimal name ends with the right one's digits
	}
	rightTopic := commons.GetTopicBaseName(topic) == right
	pmsg := &pubsub.Message{Message: &pspb.Message{Data: pdata, Topic: &topic}}

	var err error
	accepted := false
	if via {
		res := mv.ValidatePubsubMessage(context.Background(), "peer", pmsg)
		zzAssert(res == pubsub.ValidationAccept || res == pubsub.ValidationReject || res == pubsub.ValidationIgnore, "pubsub-result-in-range")
		accepted = res == pubsub.ValidationAccept
		zzAssert(accepted == (pmsg.ValidatorData != nil), "pubsub-accept-iff-decoded-message-attached")
		if !accepted {
			zzReach("rejected")
			return
		}
	} else {
		var dec interface{}
		dec, _, err = mv.validateP2PMessage(pmsg, time.Unix(now, 0))
		_ = dec
		if zzParam("REPEAT") == 1 {
			// "before and after any history of previously validated messages": the same bytes delivered once more
			// (whatever the first delivery left behind - caches, per-signer state - must not make the second one crash)
			_, _, err2 := mv.validateP2PMessage(pmsg, time.Unix(now, 0))
			if err2 != nil {
				zzReach("repeat-rejected")
			}
		}
		if err != nil {
			zzReach("rejected")
			var ve Error
			if errors.As(err, &ve) {
				zzReach("err:" + ve.text)
			} else {
				zzReach("untyped-error")
			}
			return
		}
		accepted = true
	}
	zzReach("accepted")
	if zzParam("RULES") == 0 {
		return
	}

	// ---- C09: accept => front rules
	epoch := uint64(now-zzGenesis) / 12 / 32
	active := !via && epoch > 100
	if via {
		// receive time is the engine clock (>= genesis, otherwise unconstrained)
	} else if active {
		zzAssert(enveloped == 1, "envelope-required-once-active")
		zzAssert(opid == 2 || opid == 5 || opid == 6 || opid == 9, "envelope-operator-registered-with-usable-key")
		zzAssert(zzRSAValid(opid, payload, envSig), "envelope-signature-over-exact-payload")
	}
	if !via {
		// what is decoded as the network message: the envelope payload once active, the raw bytes before
		md := pdata
		if active {
			md = payload
		}
		zzAssert(len(md) >= 2 && md[0] == 0xEE && md[1] == 1, "payload-decodable")
	}
	zzAssert(rightTopic, "sent-on-validator-topic")
	zzAssert(dom == mv.netCfg.Domain, "domain-matches-network")
	zzAssert(roleRaw <= 6, "role-valid")
	zzAssert(shares.state == 1 || shares.state == 2, "validator-known")
	zzAssert(!share.Liquidated, "validator-not-liquidated")
	zzAssert(shares.state == 1, "validator-has-metadata")
	curEpoch := uint64(now-zzGenesis) / 12 / 32
	zzAssert(status == 3 || status == 4 || (status == 2 && activation <= curEpoch), "validator-attesting")
	zzAssert(mt == spectypes.SSVConsensusMsgType || mt == spectypes.SSVPartialSignatureMsgType, "type-consensus-or-partial")
	zzAssert(data[0] == 0xEE, "body-decodable")
	if mt == spectypes.SSVPartialSignatureMsgType {
		// (the per-type size limits are a C08 mechanism against unbounded work, not a gossip rule of C09: not asserted)
		zzAssert(psigner != 0 && zzValInCommittee(share, psigner), "partial-signer-in-committee")
	} else {
		s := zzBodyC.Signers[0]
		zzAssert(s != 0 && zzValInCommittee(share, s), "signer-in-committee")
		zzAssert(uint64(zzBodyC.Message.MsgType) <= 3, "known-qbft-type")
		zzAssert(uint64(zzBodyC.Message.Round) >= 1, "round>=1")
	}
}

// ZZHarnessConcurrent (C09, schedules): three validations for the SAME message id run as goroutines under the
// schedule-exploring mode of the engine (real mutexes; every Lock / Unlock and the signature verification step
// are scheduling points; <= SCHED_PREEMPT preemptions): A = prepare of operator 2, B and C = two prepares of
// operator 5 for the same slot and round. Under every explored schedule exactly one of B, C is accepted, and the
// recorded state counts one prepare per signer.
func ZZHarnessConcurrent() {
	now := int64(zzGenesis + 1000*12 + 1)
	mv := zzValidator(now)
	mv.validationLocks = map[spectypes.MessageID]*sync.Mutex{}
	pk := make([]byte, 48)
	pk[0] = 0x8A
	share := zzShare(4)
	share.ValidatorPubKey = pk
	share.BeaconMetadata = &beacon.ValidatorMetadata{Index: 7, Status: eth2apiv1.ValidatorStateActiveOngoing}
	mv.nodeStorage = &zzStore{shares: &zzShares{pk: pk, share: share, state: 1}}
	msgID := spectypes.NewMsgID(mv.netCfg.Domain, pk, spectypes.BNRoleAttester)
	zzBodies = nil
	var msgs []*spectypes.SSVMessage
	for i, signer := range []spectypes.OperatorID{2, 5, 5} {
		sig := make([]byte, 96)
		sig[0] = 1
		var root [32]byte
		root[0] = 7
		zzBodies = append(zzBodies, &specqbft.SignedMessage{Signature: sig, Signers: []spectypes.OperatorID{signer},
			Message: specqbft.Message{MsgType: specqbft.PrepareMsgType, Height: 1000, Round: 1, Identifier: msgID[:], Root: root}})
		msgs = append(msgs, &spectypes.SSVMessage{MsgType: spectypes.SSVConsensusMsgType, MsgID: msgID, Data: []byte{0xEE, byte(i + 1)}})
	}
	verifier := func() error {
		zzYield() // the (slow) signature verification: a scheduling point inside the critical section
		return nil
	}
	res := make([]error, 3)
	done := make(chan int, 1)
	finished := 0
	for i := range msgs {
		go func(i int) {
			_, _, err := mv.validateSSVMessage(msgs[i], time.Unix(now, 0), verifier)
			res[i] = err
			finished++
			if finished == len(msgs) {
				done <- i // only the last one wakes the harness (keeps it out of the schedule space)
			}
		}(i)
	}
	<-done
	zzReach("all-finished")
	if res[0] == nil {
		zzReach("other-signer-accepted")
	}
	zzAssert(!(res[1] == nil && res[2] == nil), "duplicate-prepare-never-accepted-twice-under-any-schedule")
	if res[1] == nil || res[2] == nil {
		zzReach("one-of-the-two-accepted")
	}
}
