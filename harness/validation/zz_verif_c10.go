package validation

// C10: messages emitted by a correct operator's real consensus instance are validated by a correct peer's
// real validateConsensusMessage inside the message's time window: never classified as reject; accepted when
// delivered in order.

import (
	"errors"
	"time"

	"github.com/attestantio/go-eth2-client/spec/phase0"
	specqbft "github.com/bloxapp/ssv-spec/qbft"
	spectypes "github.com/bloxapp/ssv-spec/types"
	"go.uber.org/zap"

	"github.com/bloxapp/ssv/protocol/v2/qbft"
	"github.com/bloxapp/ssv/protocol/v2/qbft/instance"
)

type zzITimer struct{}

func (zzITimer) TimeoutForRound(h specqbft.Height, r specqbft.Round) {}

type zzSender struct {
	inst  *instance.Instance
	net   *zzNet
	share *spectypes.Share
	id    []byte
	h     specqbft.Height
	lg    *zap.Logger
}

func zzNewSender(n int, own spectypes.OperatorID, id []byte, height specqbft.Height, value []byte) *zzSender {
	s := &zzSender{net: &zzNet{}, share: zzShareFor(n, own), id: id, h: height, lg: zap.NewNop()}
	cfg := &qbft.Config{Signer: zzSigner{}, Domain: spectypes.DomainType{0, 0, 3, 1},
		ValueCheckF: func([]byte) error { return nil },
		ProposerF:   func(st *specqbft.State, r specqbft.Round) spectypes.OperatorID { return specqbft.RoundRobinProposer(st, r) },
		Network:     s.net, Timer: zzITimer{}, SignatureVerification: true}
	s.inst = instance.NewInstance(cfg, s.share, id, height)
	s.inst.Start(s.lg, value, height)
	return s
}

func zzLeaderOf(sh *spectypes.Share, h specqbft.Height, r specqbft.Round) spectypes.OperatorID {
	n := uint64(len(sh.Committee))
	idx := (uint64(r) - 1) % n
	if h != 0 {
		idx = (uint64(h)%n + uint64(r) - 1) % n
	}
	return sh.Committee[idx].OperatorID
}

// the peer: validates every not yet validated broadcast of the sender, each received at a symbolic instant
// inside the window of the message's round (attester timing: round r runs from slotStart+4s+2s(r-1))
type zzPeer struct {
	mv       *messageValidator
	msgID    spectypes.MessageID
	role     spectypes.BeaconRole
	seen     int
	lastRecv int64
}

func (p *zzPeer) drain(s *zzSender, label string, expectAccept bool) {
	share := zzShare(len(s.share.Committee))
	for p.seen < len(s.net.msgs) {
		m := s.net.msgs[p.seen]
		p.seen++
		if m == nil {
			continue
		}
		slotStart := int64(zzGenesis) + int64(m.Message.Height)*12
		r := int64(m.Message.Round)
		lo := slotStart + 4 + 2*(r-1)
		recv := lo + int64(zzNondetRange("recvOffset", 0, 2))
		zzAssume(recv >= p.lastRecv)
		p.lastRecv = recv
		p.mv.netCfg.Beacon.(*zzBeacon).now = recv
		_, _, err := p.mv.validateConsensusMessage(share, zzCopyMsg(m), p.msgID, time.Unix(recv, 0), func() error { return nil })
		if err != nil {
			zzReach("not-accepted")
			var ve Error
			if errors.As(err, &ve) {
				zzAssert(!ve.Reject(), label+"-honest-message-never-rejected")
				zzReach("ignored:" + ve.text)
			}
			if expectAccept {
				zzAssert(false, label+"-in-order-timely-honest-message-accepted")
			}
		} else {
			zzReach("accepted")
		}
	}
}

func zzC10Setup(role spectypes.BeaconRole, n int, ownIdx int) (*zzPeer, []byte, specqbft.Height) {
	height := specqbft.Height(zzConcretizeU64(zzNondetRange("height", 100, 103))) // slot of the duty (all leader rotations)
	mv := zzValidator(zzGenesis)
	pk := make([]byte, 48)
	msgID := spectypes.NewMsgID(mv.netCfg.Domain, pk, role)
	return &zzPeer{mv: mv, msgID: msgID, role: role}, msgID[:], height
}

// ZZHarnessC10Run: the sender goes through an honest round-1 run (proposal, prepares, commits), optionally
// with timeouts before or after preparing; everything it broadcasts is validated by the peer in order.
func ZZHarnessC10Run() {
	n := int(zzParam("N"))
	ownIdx := zzChoose("own", n)
	own := zzCommitteeIDs[n][ownIdx]
	peer, id, height := zzC10Setup(spectypes.BNRoleAttester, n, ownIdx)
	value := []byte{9}
	s := zzNewSender(n, own, id, height, value)
	root, _ := zzHashDataRoot(value)
	leader := zzLeaderOf(s.share, height, 1)
	msg := func(t specqbft.MessageType, round specqbft.Round) specqbft.Message {
		return specqbft.Message{MsgType: t, Height: height, Round: round, Identifier: id, Root: root}
	}
	var others []spectypes.OperatorID
	for _, c := range s.share.Committee {
		if c.OperatorID != own {
			others = append(others, c.OperatorID)
		}
	}
	q := int(s.share.Quorum)
	peer.drain(s, "start", true)
	scenario := zzChoose("scenario", 4) // 0 decide in round 1 | 1 timeout before proposal | 2 timeout after preparing | 3 two timeouts
	if scenario == 1 || scenario == 3 {
		zzAssume(s.inst.UponRoundTimeout(s.lg) == nil)
		peer.drain(s, "timeout-unprepared", true)
		if scenario == 3 {
			zzAssume(s.inst.UponRoundTimeout(s.lg) == nil)
			peer.drain(s, "second-timeout", true)
		}
		zzReach("end")
		return
	}
	if leader != own {
		_, _, _, err := s.inst.ProcessMsg(s.lg, zzHonest(leader, msg(specqbft.ProposalMsgType, 1), value))
		zzAssume(err == nil)
	} else {
		_, _, _, err := s.inst.ProcessMsg(s.lg, zzCopyMsg(s.net.msgs[0]))
		zzAssume(err == nil)
	}
	peer.drain(s, "prepare", true)
	for k := 0; k < q; k++ {
		_, _, _, err := s.inst.ProcessMsg(s.lg, zzHonest(others[k], msg(specqbft.PrepareMsgType, 1), nil))
		zzAssume(err == nil)
	}
	peer.drain(s, "commit", true)
	if scenario == 2 {
		zzAssume(s.inst.UponRoundTimeout(s.lg) == nil)
		peer.drain(s, "timeout-prepared", true)
		zzReach("prepared-roundchange")
		zzReach("end")
		return
	}
	var agg *specqbft.SignedMessage
	for k := 0; k < q; k++ {
		_, _, a, err := s.inst.ProcessMsg(s.lg, zzHonest(others[k], msg(specqbft.CommitMsgType, 1), nil))
		zzAssume(err == nil)
		if a != nil {
			agg = a
		}
	}
	zzAssert(agg != nil, "sender-decided")
	if agg != nil {
		// the decided aggregate is broadcast by the controller
		s.net.msgs = append(s.net.msgs, agg)
		peer.drain(s, "decided", true)
		zzReach("decided-validated")
	}
	zzReach("end")
}

// ZZHarnessC10LeaderProposal: the sender leads round ROUND; it receives a round-change quorum (all unprepared /
// one sender prepared at round 1 / two senders prepared on the same value at rounds 1 and 2) in any order and
// must propose; the peer must not reject (and accepts) the justified proposal.
func ZZHarnessC10LeaderProposal() {
	n := int(zzParam("N"))
	round := specqbft.Round(zzParam("ROUND"))
	peer, id, height := zzC10Setup(spectypes.BNRoleAttester, n, 0)
	share0 := zzShareFor(n, zzCommitteeIDs[n][0])
	own := zzLeaderOf(share0, height, round)
	value := []byte{9}
	s := zzNewSender(n, own, id, height, value)
	peer.seen = len(s.net.msgs) // the round-1 traffic of this sender is not the subject here
	for s.inst.State.Round < round {
		zzAssume(s.inst.UponRoundTimeout(s.lg) == nil)
	}
	peer.drain(s, "leader-roundchange", true)
	q := int(s.share.Quorum)
	shape := zzChoose("shape", 3)
	if shape == 2 && round < 3 {
		shape = 1
	}
	pv := []byte{5}
	proot, _ := zzHashDataRoot(pv)
	var senders []spectypes.OperatorID
	for _, c := range s.share.Committee {
		if c.OperatorID != own && len(senders) < q {
			senders = append(senders, c.OperatorID)
		}
	}
	mkPrepares := func(rd specqbft.Round) []*specqbft.SignedMessage {
		var ps []*specqbft.SignedMessage
		for k := 0; k < q; k++ {
			ps = append(ps, zzHonest(s.share.Committee[k].OperatorID, specqbft.Message{MsgType: specqbft.PrepareMsgType, Height: height, Round: rd, Identifier: id, Root: proot}, nil))
		}
		return ps
	}
	var rcs []*specqbft.SignedMessage
	for k, snd := range senders {
		m := specqbft.Message{MsgType: specqbft.RoundChangeMsgType, Height: height, Round: round, Identifier: id}
		var fd []byte
		preparedAt := specqbft.Round(0)
		if shape >= 1 && k == 0 {
			preparedAt = 1
		}
		if shape == 2 && k == 1 {
			preparedAt = 2
		}
		if preparedAt != 0 {
			m.Root, m.DataRound, fd = proot, preparedAt, pv
			j, _ := specqbft.MarshalJustifications(mkPrepares(preparedAt))
			m.RoundChangeJustification = j
		}
		rcs = append(rcs, zzHonest(snd, m, fd))
	}
	// any delivery order
	order := [][]int{{0, 1, 2}, {0, 2, 1}, {1, 0, 2}, {1, 2, 0}, {2, 0, 1}, {2, 1, 0}}[zzChoose("order", 6)]
	before := len(s.net.msgs)
	for _, i := range order {
		if i < len(rcs) {
			_, _, _, err := s.inst.ProcessMsg(s.lg, rcs[i])
			zzAssert(err == nil, "leader-accepts-honest-roundchange")
		}
	}
	nprop := 0
	for _, b := range s.net.msgs[before:] {
		if b != nil && b.Message.MsgType == specqbft.ProposalMsgType {
			nprop++
		}
	}
	// (whether the leader proposes for this delivery order is C07's concern; here: whatever it emits is valid)
	if nprop == 1 {
		zzReach("proposed")
	}
	peer.drain(s, "justified-proposal", true)
	zzReach("end")
}

// ---- partial-signature messages (C10, second half)

// what a correct operator's duty runner sends for one duty of the role, in order (types as built by
// runner.executeDuty / ProcessConsensus / ProcessPreConsensus): an optional pre-consensus message, for roles
// with a consensus phase its round-1 prepare and commit, and the post-consensus message.
type zzDutyMsg struct {
	partial *spectypes.SignedPartialSignatureMessage
	cons    *specqbft.SignedMessage
	after   int64 // earliest receive offset from slot start (seconds)
}

func zzDutyMessages(role spectypes.BeaconRole, msgID spectypes.MessageID, signer spectypes.OperatorID, slot uint64) []zzDutyMsg {
	sig := func() []byte {
		s := make([]byte, 96)
		s[0] = 1
		return s
	}
	part := func(t spectypes.PartialSigMsgType, nroots int) *spectypes.SignedPartialSignatureMessage {
		m := &spectypes.SignedPartialSignatureMessage{Signature: sig(), Signer: signer,
			Message: spectypes.PartialSignatureMessages{Type: t, Slot: phase0.Slot(slot)}}
		for i := 0; i < nroots; i++ {
			var root [32]byte
			root[0], root[1] = byte(t)+1, byte(i)
			m.Message.Messages = append(m.Message.Messages, &spectypes.PartialSignatureMessage{PartialSignature: sig(), SigningRoot: root, Signer: signer})
		}
		return m
	}
	cons := func(t specqbft.MessageType) *specqbft.SignedMessage {
		var root [32]byte
		root[0] = 9
		return &specqbft.SignedMessage{Signature: sig(), Signers: []spectypes.OperatorID{signer},
			Message: specqbft.Message{MsgType: t, Height: specqbft.Height(slot), Round: 1, Identifier: msgID[:], Root: root}}
	}
	var wait int64
	var pre spectypes.PartialSigMsgType
	hasPre, hasCons := false, true
	switch role {
	case spectypes.BNRoleAttester, spectypes.BNRoleSyncCommittee:
		wait = 4
	case spectypes.BNRoleAggregator:
		wait, pre, hasPre = 8, spectypes.SelectionProofPartialSig, true
	case spectypes.BNRoleSyncCommitteeContribution:
		wait, pre, hasPre = 8, spectypes.ContributionProofs, true
	case spectypes.BNRoleProposer:
		wait, pre, hasPre = 0, spectypes.RandaoPartialSig, true
	case spectypes.BNRoleValidatorRegistration:
		pre, hasPre, hasCons = spectypes.ValidatorRegistrationPartialSig, true, false
	case spectypes.BNRoleVoluntaryExit:
		pre, hasPre, hasCons = spectypes.VoluntaryExitPartialSig, true, false
	}
	var out []zzDutyMsg
	if hasPre {
		out = append(out, zzDutyMsg{partial: part(pre, 1), after: wait})
	}
	if hasCons {
		out = append(out, zzDutyMsg{cons: cons(specqbft.PrepareMsgType), after: wait})
		out = append(out, zzDutyMsg{cons: cons(specqbft.CommitMsgType), after: wait})
		out = append(out, zzDutyMsg{partial: part(spectypes.PostConsensusPartialSig, 1), after: wait})
	}
	return out
}

// ZZHarnessC10Duties: role ROLE; a correct committee member performs two duties of the role at symbolic slots
// s1 < s2 (as the beacon chain can assign them: attester / aggregator / registration / exit duties in different
// epochs - possibly adjacent slots across the epoch boundary -, proposer and sync-committee duties at any later
// slot); a correct peer validates everything it sends, each message received inside the first two seconds of
// its round-1 window. REORDER=0: in order => every message accepted. REORDER=1: two adjacent messages of a duty
// swapped on the wire => nothing is classified as reject.
func ZZHarnessC10Duties() {
	role := zzRoles[int(zzParam("ROLE"))]
	reorder := zzParam("REORDER") == 1
	mv := zzValidator(zzGenesis)
	share := zzShare(4)
	pk := make([]byte, 48)
	msgID := spectypes.NewMsgID(mv.netCfg.Domain, pk, role)
	signer := spectypes.OperatorID(5)
	s1 := zzNondetRange("slot1", 100, 164)
	s2 := s1 + zzNondetRange("gap", 1, 64)
	switch role {
	case spectypes.BNRoleAttester, spectypes.BNRoleAggregator, spectypes.BNRoleValidatorRegistration, spectypes.BNRoleVoluntaryExit:
		zzAssume(s2/32 > s1/32) // at most one such duty per validator and epoch
	}
	slots := []uint64{s1, s2}
	switch role {
	case spectypes.BNRoleSyncCommittee, spectypes.BNRoleSyncCommitteeContribution, spectypes.BNRoleProposer:
		// duties at every slot of a sync-committee period / several proposals in one epoch: a third and fourth duty
		s3 := s2 + zzNondetRange("gap2", 1, 3)
		slots = append(slots, s3, s3+1)
	default:
		// one duty per epoch, epoch after epoch (or with epochs in between): a third and a fourth epoch
		s3 := s2 + zzNondetRange("gap2", 1, 64)
		s4 := s3 + zzNondetRange("gap3", 1, 64)
		zzAssume(s3/32 > s2/32 && s4/32 > s3/32)
		slots = append(slots, s3, s4)
	}
	var lastRecv int64
	for d, slot := range slots {
		msgs := zzDutyMessages(role, msgID, signer, slot)
		if reorder && d == 0 && len(msgs) >= 2 {
			k := zzChoose("swap", len(msgs)-1)
			msgs[k], msgs[k+1] = msgs[k+1], msgs[k]
		}
		for _, m := range msgs {
			recv := int64(zzGenesis) + int64(slot)*12 + m.after + int64(zzNondetRange("recvOffset", 0, 2))
			zzAssume(recv >= lastRecv)
			lastRecv = recv
			mv.netCfg.Beacon.(*zzBeacon).now = recv
			var err error
			if m.partial != nil {
				_, err = mv.validatePartialSignatureMessage(share, m.partial, msgID, func() error { return nil })
			} else {
				_, _, err = mv.validateConsensusMessage(share, m.cons, msgID, time.Unix(recv, 0), func() error { return nil })
			}
			if err != nil {
				zzReach("not-accepted")
				var ve Error
				if errors.As(err, &ve) {
					zzAssert(!ve.Reject(), "honest-duty-message-never-rejected")
					zzReach("ignored:" + ve.text)
				}
				zzAssert(reorder, "in-order-timely-honest-duty-message-accepted")
			} else {
				zzReach("accepted")
			}
		}
	}
	zzReach("end")
}

// ZZHarnessC10ValueChange: a duty that needs two rounds and ends on another value than the one first proposed
// (round 1: the leader S proposes its own input A, the round fails unprepared; round 2: the next leader proposes B,
// B is decided). Everything the correct operator S sends - its proposal, its round-change, its prepare and commit for
// B - and the aggregated decided message listing S are validated by a correct peer in order and in time: nothing may
// be rejected, everything is accepted.
func ZZHarnessC10ValueChange() {
	mv := zzValidator(zzGenesis)
	share := zzShare(4)
	pk := make([]byte, 48)
	role := spectypes.BNRoleAttester
	msgID := spectypes.NewMsgID(mv.netCfg.Domain, pk, role)
	slot := zzConcretizeU64(zzNondetRange("slot", 100, 103)) // all leader rotations
	n := uint64(4)
	leaderOf := func(r uint64) spectypes.OperatorID { return share.Committee[(slot%n+r-1)%n].OperatorID }
	S := leaderOf(1)
	A, B := []byte{0xA1}, []byte{0xB2}
	rootA, _ := zzValHashDataRoot(A)
	rootB, _ := zzValHashDataRoot(B)
	sig := func() []byte {
		s := make([]byte, 96)
		s[0] = 1
		return s
	}
	one := func(t specqbft.MessageType, round uint64, root [32]byte, signer spectypes.OperatorID, full []byte) *specqbft.SignedMessage {
		return &specqbft.SignedMessage{Signature: sig(), Signers: []spectypes.OperatorID{signer}, FullData: full,
			Message: specqbft.Message{MsgType: t, Height: specqbft.Height(slot), Round: specqbft.Round(round), Identifier: msgID[:], Root: root}}
	}
	// the decided aggregate lists S and two more members, ascending
	var agg []spectypes.OperatorID
	for _, c := range share.Committee {
		if len(agg) < 3 && (c.OperatorID == S || len(agg) < 2 || containsOp(agg, S)) {
			agg = append(agg, c.OperatorID)
		}
	}
	if !containsOp(agg, S) {
		agg[len(agg)-1] = S
		for i := len(agg) - 1; i > 0 && agg[i] < agg[i-1]; i-- {
			agg[i], agg[i-1] = agg[i-1], agg[i]
		}
	}
	decided := one(specqbft.CommitMsgType, 2, rootB, S, B)
	decided.Signers = agg
	type step struct {
		m     *specqbft.SignedMessage
		after int64
	}
	seq := []step{
		{one(specqbft.ProposalMsgType, 1, rootA, S, A), 4},
		{one(specqbft.RoundChangeMsgType, 2, [32]byte{}, S, nil), 6},
		{one(specqbft.PrepareMsgType, 2, rootB, S, nil), 6},
		{one(specqbft.CommitMsgType, 2, rootB, S, nil), 6},
		{decided, 6},
	}
	var lastRecv int64
	for i, st := range seq {
		recv := int64(zzGenesis) + int64(slot)*12 + st.after + int64(zzNondetRange("recvOffset", 0, 1))
		zzAssume(recv >= lastRecv)
		lastRecv = recv
		mv.netCfg.Beacon.(*zzBeacon).now = recv
		_, _, err := mv.validateConsensusMessage(share, st.m, msgID, time.Unix(recv, 0), func() error { return nil })
		if err != nil {
			var ve Error
			if errors.As(err, &ve) {
				zzAssert(!ve.Reject(), "honest-message-of-a-two-round-duty-never-rejected")
				zzReach("ignored:" + ve.text)
			}
			zzAssert(false, "in-order-timely-honest-message-of-a-two-round-duty-accepted")
		} else if i == len(seq)-1 {
			zzReach("decided-accepted")
		}
	}
	zzReach("end")
}

func containsOp(l []spectypes.OperatorID, x spectypes.OperatorID) bool {
	for _, y := range l {
		if y == x {
			return true
		}
	}
	return false
}
