package duties

// C16: the real AttesterHandler.HandleDuties event loop (goroutine + select) driven through its ticker,
// reorg and indices-change channels by a symbolic event script; the beacon node returns a symbolic
// assignment (or fails) at every fetch.

import (
	"context"
	"errors"
	"time"

	eth2client "github.com/attestantio/go-eth2-client"
	eth2apiv1 "github.com/attestantio/go-eth2-client/api/v1"
	"github.com/attestantio/go-eth2-client/spec/phase0"
	spectypes "github.com/bloxapp/ssv-spec/types"
	"go.uber.org/zap"

	"github.com/bloxapp/ssv/networkconfig"
	"github.com/bloxapp/ssv/operator/duties/dutystore"
	"github.com/bloxapp/ssv/operator/slotticker"
	"github.com/bloxapp/ssv/protocol/v2/blockchain/beacon"
	"github.com/bloxapp/ssv/protocol/v2/types"
)

const zzSPE = 8 // slots per epoch in the fake network

type zzBeacon struct{ slot phase0.Slot }

func (b *zzBeacon) ForkVersion() [4]byte                               { return [4]byte{} }
func (b *zzBeacon) MinGenesisTime() uint64                             { return 0 }
func (b *zzBeacon) SlotDurationSec() time.Duration                     { return 12 * time.Second }
func (b *zzBeacon) SlotsPerEpoch() uint64                              { return zzSPE }
func (b *zzBeacon) EstimatedCurrentSlot() phase0.Slot                  { return b.slot }
func (b *zzBeacon) EstimatedSlotAtTime(t int64) phase0.Slot            { return phase0.Slot(t / 12) }
func (b *zzBeacon) EstimatedTimeAtSlot(slot phase0.Slot) int64         { return int64(slot) * 12 }
func (b *zzBeacon) EstimatedCurrentEpoch() phase0.Epoch                { return phase0.Epoch(b.slot / zzSPE) }
func (b *zzBeacon) EstimatedEpochAtSlot(slot phase0.Slot) phase0.Epoch { return phase0.Epoch(slot / zzSPE) }
func (b *zzBeacon) FirstSlotAtEpoch(epoch phase0.Epoch) phase0.Slot    { return phase0.Slot(epoch * zzSPE) }
func (b *zzBeacon) EpochStartTime(epoch phase0.Epoch) time.Time {
	return time.Unix(int64(epoch)*zzSPE*12, 0)
}
func (b *zzBeacon) GetSlotStartTime(slot phase0.Slot) time.Time      { return time.Unix(int64(slot)*12, 0) }
func (b *zzBeacon) GetSlotEndTime(slot phase0.Slot) time.Time        { return time.Unix(int64(slot+1)*12, 0) }
func (b *zzBeacon) IsFirstSlotOfEpoch(slot phase0.Slot) bool         { return slot%zzSPE == 0 }
func (b *zzBeacon) GetEpochFirstSlot(epoch phase0.Epoch) phase0.Slot { return phase0.Slot(epoch * zzSPE) }
func (b *zzBeacon) EpochsPerSyncCommitteePeriod() uint64             { return 4 }
func (b *zzBeacon) EstimatedSyncCommitteePeriodAtEpoch(e phase0.Epoch) uint64 {
	return uint64(e) / 4
}
func (b *zzBeacon) FirstEpochOfSyncPeriod(period uint64) phase0.Epoch { return phase0.Epoch(period * 4) }
func (b *zzBeacon) LastSlotOfSyncPeriod(period uint64) phase0.Slot {
	return phase0.Slot((period+1)*4*zzSPE - 1)
}
func (b *zzBeacon) GetNetwork() beacon.Network                { return beacon.Network{} }
func (b *zzBeacon) GetBeaconNetwork() spectypes.BeaconNetwork { return spectypes.PraterNetwork }

type zzTicker struct {
	ch   chan time.Time
	slot phase0.Slot
}

func (t *zzTicker) Next() <-chan time.Time { return t.ch }
func (t *zzTicker) Slot() phase0.Slot      { return t.slot }

type zzFetch struct {
	epoch phase0.Epoch
	slot2 phase0.Slot // second assigned slot of the same validator (proposer, when two)
	two   bool
	slot  phase0.Slot // assigned duty slot (when ok)
	ok    bool
	seq   int // global event sequence number at which the fetch happened
	ord   int
}

var zzSeq int
var zzOrd int // total order of fetches and dispatches
var zzCurSlot phase0.Slot

type zzSFetch struct {
	period   uint64
	ok       bool
	assigned bool
	seq, ord int
}

type zzBN struct {
	fetches  []zzFetch
	sfetches []zzSFetch
}

func (b *zzBN) AttesterDuties(ctx context.Context, epoch phase0.Epoch, idx []phase0.ValidatorIndex) ([]*eth2apiv1.AttesterDuty, error) {
	if !zzNondetBool("fetch_ok") {
		zzOrd++
		b.fetches = append(b.fetches, zzFetch{epoch: epoch, seq: zzSeq, ord: zzOrd})
		return nil, errors.New("zz: beacon node down")
	}
	// the assigned slot: near the present for the current epoch, early for a later epoch (so that it is
	// reachable within the bounded number of ticks); solver-enumerated
	base := uint64(0)
	if uint64(epoch) == uint64(zzCurSlot)/zzSPE {
		base = uint64(zzCurSlot) % zzSPE
	}
	off := (base + zzConcretizeU64(zzNondetRange("duty_off", 0, 2))) % zzSPE
	s := phase0.Slot(uint64(epoch)*zzSPE + off)
	zzOrd++
	b.fetches = append(b.fetches, zzFetch{epoch: epoch, slot: s, ok: true, seq: zzSeq, ord: zzOrd})
	return []*eth2apiv1.AttesterDuty{{Slot: s, ValidatorIndex: 7}}, nil
}
func (b *zzBN) ProposerDuties(ctx context.Context, epoch phase0.Epoch, idx []phase0.ValidatorIndex) ([]*eth2apiv1.ProposerDuty, error) {
	if !zzNondetBool("fetch_ok") {
		zzOrd++
		b.fetches = append(b.fetches, zzFetch{epoch: epoch, seq: zzSeq, ord: zzOrd})
		return nil, errors.New("zz: beacon node down")
	}
	base := uint64(0)
	if uint64(epoch) == uint64(zzCurSlot)/zzSPE {
		base = uint64(zzCurSlot) % zzSPE
	}
	off := (base + zzConcretizeU64(zzNondetRange("duty_off", 0, 2))) % zzSPE
	s := phase0.Slot(uint64(epoch)*zzSPE + off)
	zzOrd++
	f := zzFetch{epoch: epoch, slot: s, ok: true, seq: zzSeq, ord: zzOrd}
	duties := []*eth2apiv1.ProposerDuty{{Slot: s, ValidatorIndex: 7}}
	if zzParam("TWO") == 1 && (uint64(s)+2)/zzSPE == uint64(epoch) && zzNondetBool("second_slot") {
		// the same validator proposes twice in the epoch (two slots apart)
		f.slot2, f.two = s+2, true
		duties = append(duties, &eth2apiv1.ProposerDuty{Slot: s + 2, ValidatorIndex: 7})
	}
	b.fetches = append(b.fetches, f)
	return duties, nil
}
func (b *zzBN) SyncCommitteeDuties(ctx context.Context, epoch phase0.Epoch, idx []phase0.ValidatorIndex) ([]*eth2apiv1.SyncCommitteeDuty, error) {
	period := uint64(epoch) / 4
	zzOrd++
	switch zzChoose("sync_fetch", 3) {
	case 0:
		b.sfetches = append(b.sfetches, zzSFetch{period: period, seq: zzSeq, ord: zzOrd})
		return nil, errors.New("zz: beacon node down")
	case 1: // the validator is not in the sync committee of this period
		b.sfetches = append(b.sfetches, zzSFetch{period: period, ok: true, seq: zzSeq, ord: zzOrd})
		return nil, nil
	}
	b.sfetches = append(b.sfetches, zzSFetch{period: period, ok: true, assigned: true, seq: zzSeq, ord: zzOrd})
	return []*eth2apiv1.SyncCommitteeDuty{{ValidatorIndex: 7, ValidatorSyncCommitteeIndices: []phase0.CommitteeIndex{3}}}, nil
}
func (b *zzBN) Events(ctx context.Context, topics []string, h eth2client.EventHandlerFunc) error {
	return nil
}
func (b *zzBN) SubmitBeaconCommitteeSubscriptions(ctx context.Context, s []*eth2apiv1.BeaconCommitteeSubscription) error {
	return nil
}
func (b *zzBN) SubmitSyncCommitteeSubscriptions(ctx context.Context, s []*eth2apiv1.SyncCommitteeSubscription) error {
	return nil
}

type zzVC struct{}

func (zzVC) CommitteeActiveIndices(epoch phase0.Epoch) []phase0.ValidatorIndex {
	return []phase0.ValidatorIndex{7}
}
func (zzVC) AllActiveIndices(epoch phase0.Epoch, afterInit bool) []phase0.ValidatorIndex {
	return []phase0.ValidatorIndex{7}
}
func (zzVC) GetOperatorShares() []*types.SSVShare { return nil }

// redirect target for context.WithDeadline: the fetch deadline plays no role in the property
func zzWithDeadline(parent context.Context, d time.Time) (context.Context, context.CancelFunc) {
	return parent, func() {}
}

type zzExec struct {
	slot phase0.Slot // duty slot
	tick phase0.Slot // tick at which it was dispatched
	role spectypes.BeaconRole
	seq  int
	ord  int
}

// latest fetch attempt for an epoch (nil if none)
func zzLatestFetch(fs []zzFetch, e phase0.Epoch) *zzFetch {
	var r *zzFetch
	for i := range fs {
		if fs[i].epoch == e {
			r = &fs[i]
		}
	}
	return r
}

func ZZHarnessAttester() {
	k := int(zzParam("K"))
	starts := []phase0.Slot{zzSPE + 1, zzSPE + 2, zzSPE + 4, zzSPE + 6, zzSPE + 7} // before / at the prefetch point, mid, end of epoch 1
	start := starts[zzChoose("start_slot", len(starts))]
	zzCurSlot = start
	bc := &zzBeacon{slot: start}
	tk := &zzTicker{ch: make(chan time.Time), slot: start}
	bn := &zzBN{}
	var execs []zzExec
	h := NewAttesterHandler(dutystore.NewDuties[eth2apiv1.AttesterDuty]())
	reorg := make(chan ReorgEvent)
	idxc := make(chan struct{})
	h.Setup("ATT", zap.NewNop(), bn, nil, networkconfig.NetworkConfig{Beacon: bc}, zzVC{},
		func(l *zap.Logger, ds []*spectypes.Duty) {
			zzOrd++
			for _, d := range ds {
				execs = append(execs, zzExec{slot: d.Slot, tick: tk.slot, role: d.Type, seq: zzSeq, ord: zzOrd})
			}
		},
		func() slotticker.SlotTicker { return tk }, reorg, idxc)
	go h.HandleDuties(context.Background())

	// Which stored assignment an event makes stale (per epoch; the sequence number of the event):
	//   previous dependent root changed -> the running epoch (and the next one once it may have been prefetched)
	//   current dependent root changed  -> only the next epoch (once it may have been prefetched)
	//   indices change                  -> the next epoch (same condition); the running epoch is re-fetched right
	//                                      after the next tick has executed its duties
	inv := map[phase0.Epoch]int{}
	invOf := func(e phase0.Epoch) int {
		if v, ok := inv[e]; ok {
			return v
		}
		return -1
	}
	prefetched := func(s phase0.Slot) bool { return uint64(s)%zzSPE > zzSPE/2-2 }
	pendingIdx := false
	ticked := false
	for i := 0; i < k; i++ {
		zzSeq++
		ev := 0
		if ticked { // the first event is a tick (the handler starts on a tick)
			ev = zzChoose("event", 4)
		}
		epochNow := phase0.Epoch(tk.slot / zzSPE)
		switch ev {
		case 0: // tick of the current slot; afterwards the clock moves to the next slot
			nexec := len(execs)
			tk.ch <- time.Time{}
			zzYield()
			ticked = true
			slot := tk.slot
			epoch := phase0.Epoch(slot / zzSPE)
			// liveness: the epoch's assignment was fetched successfully before this tick, names this slot, and
			// nothing made it stale since => dispatched now (attester + aggregator)
			lf := zzLatestFetch(bn.fetches, epoch)
			if lf != nil && lf.ok && lf.slot == slot && lf.seq < zzSeq && invOf(epoch) <= lf.seq {
				zzReach("due")
				zzAssert(len(execs) == nexec+2, "fetched-duty-dispatched-exactly-once-at-its-tick")
			}
			if pendingIdx {
				inv[epoch] = zzSeq
				pendingIdx = false
			}
			tk.slot++
			bc.slot = tk.slot
			zzCurSlot = tk.slot
		case 1:
			reorg <- ReorgEvent{Slot: tk.slot, Previous: true}
			zzYield()
			inv[epochNow] = zzSeq
			if prefetched(tk.slot) {
				inv[epochNow+1] = zzSeq
			}
			zzReach("reorg-previous")
		case 2:
			reorg <- ReorgEvent{Slot: tk.slot, Current: true}
			zzYield()
			if prefetched(tk.slot) {
				inv[epochNow+1] = zzSeq
			}
			zzReach("reorg-current")
		case 3:
			idxc <- struct{}{}
			zzYield()
			pendingIdx = true
			if prefetched(tk.slot) {
				inv[epochNow+1] = zzSeq
			}
			zzReach("indices-change")
		}
	}
	for i := range execs {
		zzAssert(execs[i].slot == execs[i].tick, "dispatched-only-at-the-tick-of-its-slot")
		for j := range execs {
			if i != j {
				zzAssert(!(execs[i].slot == execs[j].slot && execs[i].role == execs[j].role), "at-most-one-dispatch-per-slot-and-role")
			}
		}
		// the dispatched duty is in the most recently fetched assignment of its epoch (fetched before the dispatch)
		var lf *zzFetch
		for f := range bn.fetches {
			if bn.fetches[f].epoch == phase0.Epoch(execs[i].slot/zzSPE) && bn.fetches[f].ok && bn.fetches[f].ord < execs[i].ord {
				lf = &bn.fetches[f]
			}
		}
		zzAssert(lf != nil, "dispatched-duty-was-fetched")
		if lf != nil {
			zzAssert(lf.slot == execs[i].slot, "dispatched-duty-is-in-the-most-recently-fetched-assignment")
		}
	}
	zzReach("end")
	if len(execs) > 0 {
		zzReach("some-dispatch")
	}
}


// ZZHarnessProposer: the same event script on the real ProposerHandler.HandleDuties loop.
func ZZHarnessProposer() {
	k := int(zzParam("K"))
	starts := []phase0.Slot{zzSPE + 1, zzSPE + 4, zzSPE + 6, zzSPE + 7}
	start := starts[zzChoose("start_slot", len(starts))]
	zzCurSlot = start
	bc := &zzBeacon{slot: start}
	tk := &zzTicker{ch: make(chan time.Time), slot: start}
	bn := &zzBN{}
	var execs []zzExec
	h := NewProposerHandler(dutystore.NewDuties[eth2apiv1.ProposerDuty]())
	reorg := make(chan ReorgEvent)
	idxc := make(chan struct{})
	h.Setup("PROP", zap.NewNop(), bn, nil, networkconfig.NetworkConfig{Beacon: bc}, zzVC{},
		func(l *zap.Logger, ds []*spectypes.Duty) {
			zzOrd++
			for _, d := range ds {
				execs = append(execs, zzExec{slot: d.Slot, tick: tk.slot, role: d.Type, seq: zzSeq, ord: zzOrd})
			}
		},
		func() slotticker.SlotTicker { return tk }, reorg, idxc)
	go h.HandleDuties(context.Background())
	// the proposer handler drops the running epoch's assignment only when the CURRENT dependent root changes; an
	// indices change re-fetches after the next tick has executed, a previous-root reorg changes nothing
	lastInvalidation := -1
	ticked := false
	for i := 0; i < k; i++ {
		zzSeq++
		ev := 0
		if ticked {
			ev = zzChoose("event", 4)
		}
		switch ev {
		case 0:
			nexec := len(execs)
			tk.ch <- time.Time{}
			zzYield()
			ticked = true
			slot := tk.slot
			epoch := phase0.Epoch(slot / zzSPE)
			lf := zzLatestFetch(bn.fetches, epoch)
			if lf != nil && lf.ok && (lf.slot == slot || (lf.two && lf.slot2 == slot)) && lf.seq < zzSeq && lastInvalidation <= lf.seq {
				zzReach("due")
				zzAssert(len(execs) == nexec+1, "fetched-duty-dispatched-exactly-once-at-its-tick")
			}
			tk.slot++
			bc.slot = tk.slot
			zzCurSlot = tk.slot
		case 1:
			reorg <- ReorgEvent{Slot: tk.slot, Previous: true}
			zzYield()
		case 2:
			reorg <- ReorgEvent{Slot: tk.slot, Current: true}
			zzYield()
			lastInvalidation = zzSeq
			zzReach("reorg-current")
		case 3:
			idxc <- struct{}{}
			zzYield()
			zzReach("indices-change")
		}
	}
	for i := range execs {
		zzAssert(execs[i].slot == execs[i].tick, "dispatched-only-at-the-tick-of-its-slot")
		zzAssert(execs[i].role == spectypes.BNRoleProposer, "proposer-role")
		for j := range execs {
			if i != j {
				zzAssert(execs[i].slot != execs[j].slot, "at-most-one-dispatch-per-slot")
			}
		}
		var lf *zzFetch
		for f := range bn.fetches {
			if bn.fetches[f].epoch == phase0.Epoch(execs[i].slot/zzSPE) && bn.fetches[f].ok && bn.fetches[f].ord < execs[i].ord {
				lf = &bn.fetches[f]
			}
		}
		zzAssert(lf != nil, "dispatched-duty-was-fetched")
		if lf != nil {
			zzAssert(lf.slot == execs[i].slot || (lf.two && lf.slot2 == execs[i].slot), "dispatched-duty-is-in-the-most-recently-fetched-assignment")
		}
	}
	zzReach("end")
	if len(execs) > 0 {
		zzReach("some-dispatch")
	}
}

// ZZHarnessSync: the real SyncCommitteeHandler.HandleDuties loop across a sync-committee period boundary
// (period = 4 epochs of 8 slots). While a validator is assigned for a period it has a sync-committee
// message duty and a contribution duty at every slot of the period.
func ZZHarnessSync() {
	k := int(zzParam("K"))
	const spp = 4 * zzSPE // slots per period
	// period 1 = slots 32..63: early in the period, around the point where the next period is prepared
	// (epoch 6, slot 2/3 of the epoch), and just before the period boundary
	starts := []phase0.Slot{spp + 5, spp + 2*zzSPE + 2, spp + 2*zzSPE + 3, spp + 3*zzSPE + 5, spp + 3*zzSPE + 6, spp + 3*zzSPE + 7}
	start := starts[zzChoose("start_slot", len(starts))]
	zzCurSlot = start
	bc := &zzBeacon{slot: start}
	tk := &zzTicker{ch: make(chan time.Time), slot: start}
	bn := &zzBN{}
	var execs []zzExec
	h := NewSyncCommitteeHandler(dutystore.NewSyncCommitteeDuties())
	reorg := make(chan ReorgEvent)
	idxc := make(chan struct{})
	h.Setup("SYNC", zap.NewNop(), bn, nil, networkconfig.NetworkConfig{Beacon: bc}, zzVC{},
		func(l *zap.Logger, ds []*spectypes.Duty) {
			zzOrd++
			for _, d := range ds {
				execs = append(execs, zzExec{slot: d.Slot, tick: tk.slot, role: d.Type, seq: zzSeq, ord: zzOrd})
			}
		},
		func() slotticker.SlotTicker { return tk }, reorg, idxc)
	go h.HandleDuties(context.Background())
	// the sync-committee handler drops only the NEXT period's assignment, on a current-root reorg during the
	// preparation window; an indices change re-fetches the running period (the old assignment stays until the new
	// one has arrived)
	invNext := map[uint64]int{}
	preparing := func(s phase0.Slot) bool {
		return uint64(s)%zzSPE >= zzSPE/2-1 && (uint64(s)/zzSPE)%4 >= 2
	}
	ticked := false
	for i := 0; i < k; i++ {
		zzSeq++
		ev := 0
		if ticked {
			ev = zzChoose("event", 4)
		}
		switch ev {
		case 0:
			nexec := len(execs)
			tickOrd := zzOrd
			tk.ch <- time.Time{}
			zzYield()
			ticked = true
			slot := tk.slot
			period := uint64(slot) / spp
			// latest fetch of this period's assignment made before this tick
			var lf *zzSFetch
			for f := range bn.sfetches {
				if bn.sfetches[f].period == period && bn.sfetches[f].ord <= tickOrd {
					lf = &bn.sfetches[f]
				}
			}
			invSeq, dropped := invNext[period]
			if lf != nil && lf.ok && lf.assigned && (!dropped || invSeq <= lf.seq) {
				zzReach("due")
				zzAssert(len(execs) == nexec+2, "fetched-sync-duty-dispatched-exactly-once-at-every-tick-of-its-period")
				if period == 2 {
					zzReach("due-after-period-boundary")
				}
			}
			tk.slot++
			bc.slot = tk.slot
			zzCurSlot = tk.slot
		case 1:
			reorg <- ReorgEvent{Slot: tk.slot, Previous: true}
			zzYield()
		case 2:
			reorg <- ReorgEvent{Slot: tk.slot, Current: true}
			zzYield()
			if preparing(tk.slot) {
				invNext[uint64(tk.slot)/spp+1] = zzSeq
			}
			zzReach("reorg-current")
		case 3:
			idxc <- struct{}{}
			zzYield()
			zzReach("indices-change")
		}
	}
	for i := range execs {
		zzAssert(execs[i].slot == execs[i].tick, "dispatched-only-at-the-tick-of-its-slot")
		zzAssert(execs[i].role == spectypes.BNRoleSyncCommittee || execs[i].role == spectypes.BNRoleSyncCommitteeContribution, "sync-roles")
		for j := range execs {
			if i != j {
				zzAssert(!(execs[i].slot == execs[j].slot && execs[i].role == execs[j].role), "at-most-one-dispatch-per-slot-and-role")
			}
		}
		var lf *zzSFetch
		for f := range bn.sfetches {
			if bn.sfetches[f].period == uint64(execs[i].slot)/spp && bn.sfetches[f].ok && bn.sfetches[f].ord < execs[i].ord {
				lf = &bn.sfetches[f]
			}
		}
		zzAssert(lf != nil, "dispatched-duty-was-fetched")
		if lf != nil {
			zzAssert(lf.assigned, "dispatched-duty-is-in-the-most-recently-fetched-assignment")
		}
	}
	zzReach("end")
	if len(execs) > 0 {
		zzReach("some-dispatch")
	}
}
