package queue

// C14 harnesses: conservation and priority-maximality of the validator message queue.
// Entry points are the public TryPop / Pop / Push / TryPush; the unexported list is used only
// to build arbitrary pre-states.

import (
	"context"

	"github.com/attestantio/go-eth2-client/spec/phase0"
	specqbft "github.com/bloxapp/ssv-spec/qbft"
	spectypes "github.com/bloxapp/ssv-spec/types"

	ssvtypes "github.com/bloxapp/ssv/protocol/v2/types"
)

// zzMsg builds a message whose kind is a 3-way choice and whose ordering-relevant fields are symbolic.
func zzMsg() *DecodedSSVMessage {
	m := &DecodedSSVMessage{SSVMessage: &spectypes.SSVMessage{}}
	switch zzChoose("kind", 3) {
	case 0:
		nsig := 1
		if zzNondetBool("quorumsigners") {
			nsig = 4
		}
		m.Body = &specqbft.SignedMessage{
			Signers: make([]spectypes.OperatorID, nsig),
			Message: specqbft.Message{
				MsgType: specqbft.MessageType(zzNondetU64("type")),
				Height:  specqbft.Height(zzNondetU64("height")),
				Round:   specqbft.Round(zzNondetU64("round")),
			}}
	case 1:
		m.Body = &spectypes.SignedPartialSignatureMessage{Message: spectypes.PartialSignatureMessages{
			Type: spectypes.PartialSigMsgType(zzNondetU64("ptype")),
			Slot: phase0.Slot(zzNondetU64("slot")),
		}}
	case 2:
		m.Body = &ssvtypes.EventMsg{Type: ssvtypes.EventType(zzNondetU64("etype"))}
	}
	return m
}

func zzState() *State {
	return &State{HasRunningInstance: zzNondetBool("running"), Height: specqbft.Height(zzNondetU64("sheight")),
		Round: specqbft.Round(zzNondetU64("sround")), Slot: phase0.Slot(zzNondetU64("sslot")), Quorum: 3}
}

// documented coarse order (from the property text): duty start, then timeout, then everything else;
// among non-event messages, current height/slot before other heights.
func zzDocClass(s *State, m *DecodedSSVMessage) int {
	switch b := m.Body.(type) {
	case *ssvtypes.EventMsg:
		if b.Type == ssvtypes.ExecuteDuty {
			return 4
		}
		if b.Type == ssvtypes.Timeout {
			return 3
		}
		return 1
	case *specqbft.SignedMessage:
		if b.Message.Height == s.Height {
			return 2
		}
		return 1
	case *spectypes.SignedPartialSignatureMessage:
		if b.Message.Slot == s.Slot {
			return 2
		}
		return 1
	}
	return 1
}

// zzCheckPop is the oracle shared by the one-step harnesses.
func zzCheckPop(q *priorityQueue, s *State, p MessagePrioritizer, all []*DecodedSSVMessage, admit []bool, before int, got *DecodedSSVMessage) {
	after := q.Len()
	// multiset conservation: every message is either still queued or the one returned, exactly once
	for i, m := range all {
		n := 0
		for it := q.head; it != nil; it = it.next {
			if it.message == m {
				n++
			}
		}
		if got == m {
			n++
			zzAssert(admit[i], "returned-is-admitted")
		}
		zzAssert(n == 1, "each-message-exactly-once")
	}
	if got != nil {
		zzReach("got")
		zzAssert(after == before-1, "conservation-on-pop")
		for i, m := range all {
			if admit[i] && m != got {
				zzAssert(!(p.Prior(m, got) && !p.Prior(got, m)), "no-admitted-strictly-prior")
				zzAssert(zzDocClass(s, m) <= zzDocClass(s, got), "documented-order-maximal")
			}
		}
	} else {
		zzReach("nil")
		zzAssert(after == before, "conservation-on-nil")
		for i := range all {
			zzAssert(!admit[i], "nil-only-if-none-admitted")
		}
	}
}

func zzSetup() (q *priorityQueue, s *State, p MessagePrioritizer, all []*DecodedSSVMessage, admit []bool, filter Filter) {
	nList := int(zzParam("NLIST"))
	nInbox := int(zzParam("NINBOX"))
	q = New(4).(*priorityQueue)
	for i := 0; i < nList; i++ {
		m := zzMsg()
		all = append(all, m)
		q.head = &item{message: m, next: q.head}
	}
	for i := 0; i < nInbox; i++ {
		m := zzMsg()
		all = append(all, m)
		zzAssume(q.TryPush(m)) // set-up: these messages are "pushed successfully"
	}
	admit = make([]bool, len(all))
	for i := range admit {
		admit[i] = zzNondetBool("admit")
	}
	s = zzState()
	p = NewMessagePrioritizer(s)
	filter = func(m *DecodedSSVMessage) bool {
		for i := range all {
			if all[i] == m {
				return admit[i]
			}
		}
		return false
	}
	return
}

// ZZHarnessTryPop: one TryPop from an arbitrary queue state (list of NLIST, inbox of NINBOX messages).
func ZZHarnessTryPop() {
	q, s, p, all, admit, filter := zzSetup()
	before := q.Len()
	zzAssert(before == len(all), "len-counts-list-and-inbox")
	got := q.TryPop(p, filter)
	zzCheckPop(q, s, p, all, admit, before, got)
}

// ZZHarnessPopCancelled: one Pop with an already cancelled context (must return immediately with
// the best admissible message, or nil, without losing anything).
func ZZHarnessPopCancelled() {
	q, s, p, all, admit, filter := zzSetup()
	before := q.Len()
	ctx, cancel := context.WithCancel(context.Background())
	cancel()
	got := q.Pop(ctx, p, filter)
	zzCheckPop(q, s, p, all, admit, before, got)
}

// ZZHarnessPopBlocking: a consumer blocked in Pop while a producer goroutine pushes N messages through
// a capacity-1 inbox: each message delivered exactly once, none lost.
func ZZHarnessPopBlocking() {
	n := int(zzParam("N"))
	q := New(1)
	msgs := make([]*DecodedSSVMessage, n)
	for i := range msgs {
		msgs[i] = zzMsg()
	}
	go func() {
		for _, m := range msgs {
			q.Push(m)
		}
	}()
	p := NewMessagePrioritizer(zzState())
	seen := map[*DecodedSSVMessage]int{}
	for i := 0; i < n; i++ {
		m := q.Pop(context.Background(), p, FilterAny)
		zzAssert(m != nil, "pop-nonnil")
		seen[m]++
	}
	for _, m := range msgs {
		zzAssert(seen[m] == 1, "exactly-once")
	}
	zzAssert(q.Len() == 0, "empty-at-end")
	zzReach("end")
}

// ZZHarnessPopBlockingFiltered: a consumer calls the blocking Pop with a restrictive filter on a queue that already
// holds NLIST messages in its list and NINBOX in its inbox (symbolic admit flags); a producer pushes NLATE more
// (symbolic admit flags) while the consumer may be waiting, then the wait is cancelled. Whatever Pop returns is
// admitted, and every message - held back, pending or late - is still there afterwards exactly once.
func ZZHarnessPopBlockingFiltered() {
	q, _, p, all, _, filter := zzSetup()
	nLate := int(zzParam("NLATE"))
	var late []*DecodedSSVMessage
	var lateAdmit []bool
	for i := 0; i < nLate; i++ {
		late = append(late, zzMsg())
		lateAdmit = append(lateAdmit, zzNondetBool("lateAdmit"))
	}
	filter2 := func(m *DecodedSSVMessage) bool {
		for i := range late {
			if late[i] == m {
				return lateAdmit[i]
			}
		}
		return filter(m)
	}
	ctx, cancel := context.WithCancel(context.Background())
	done := make(chan struct{}, 1)
	go func() {
		for _, m := range late {
			q.Push(m)
		}
		cancel()
		done <- struct{}{}
	}()
	got := q.Pop(ctx, p, filter2)
	<-done
	seen := map[*DecodedSSVMessage]int{}
	if got != nil {
		zzReach("returned")
		zzAssert(filter2(got), "blocking-pop-returns-only-admitted")
		seen[got]++
	} else {
		zzReach("nil")
	}
	// what is left: the internal list and whatever still sits in the inbox (counted directly, no priority logic)
	for it := q.head; it != nil; it = it.next {
		seen[it.message]++
	}
	for len(q.inbox) > 0 {
		seen[<-q.inbox]++
	}
	for _, m := range all {
		zzAssert(seen[m] == 1, "held-message-survives-a-blocking-pop-exactly-once")
	}
	for _, m := range late {
		zzAssert(seen[m] == 1, "late-message-delivered-exactly-once")
	}
	zzReach("end")
}

// ZZHarnessHistory: K operations chosen from {TryPush, TryPop(filter_k)} on a capacity-CAP queue;
// at the end every successfully pushed message has been returned by exactly one pop that admitted it,
// or is still queued; nothing else was returned.
func ZZHarnessHistory() {
	k := int(zzParam("K"))
	capa := int(zzParam("CAP"))
	q := New(capa).(*priorityQueue)
	s := zzState()
	p := NewMessagePrioritizer(s)
	var pushed []*DecodedSSVMessage
	popped := map[*DecodedSSVMessage]int{}
	inflight := 0
	for step := 0; step < k; step++ {
		if zzChoose("op", 2) == 0 {
			m := zzMsg()
			room := len(q.inbox) < capa
			ok := q.TryPush(m)
			_ = room // the property speaks of messages "pushed successfully" only; when TryPush may refuse is not asserted
			if ok {
				pushed = append(pushed, m)
				inflight++
			} else {
				zzReach("push-full")
			}
		} else {
			admit := make([]bool, len(pushed))
			anyAdmitted := false
			for i := range admit {
				admit[i] = zzNondetBool("admit")
				if admit[i] && popped[pushed[i]] == 0 {
					anyAdmitted = true
				}
			}
			filter := func(m *DecodedSSVMessage) bool {
				for i := range pushed {
					if pushed[i] == m {
						return admit[i]
					}
				}
				return false
			}
			got := q.TryPop(p, filter)
			if got != nil {
				zzReach("hist-got")
				zzAssert(filter(got), "hist-returned-is-admitted")
				popped[got]++
				zzAssert(popped[got] == 1, "hist-no-duplicate")
				inflight--
			} else {
				zzAssert(!anyAdmitted, "hist-nil-only-if-none-admitted")
			}
		}
		zzAssert(q.Len() == inflight, "hist-len-equals-pushed-minus-popped")
	}
}
