package records

// C08 (node records / handshake payloads): SignedNodeInfo.UnmarshalRecord and NodeInfo.UnmarshalRecord on an
// arbitrary decoded entry list (encoding/json is the engine's identity codec: a payload is either undecodable
// or yields an arbitrary structurally valid `serializable`): no panic whatever the number and content of the
// entries, and success only when the mandatory entries are present and well-formed.

import (
	"encoding/json"
)

func ZZHarnessNodeRecord() {
	if zzNondetBool("undecodable") {
		_ = (&SignedNodeInfo{}).UnmarshalRecord([]byte("{"))
		_ = (&NodeInfo{}).UnmarshalRecord([]byte("{"))
		return
	}
	nEntries := zzChoose("entries", 8)
	b64 := []string{"aGVsbG8=", "!!", ""}
	nums := []string{"1700000000", "99999999999999999999", "", "-5"}
	entries := make([]string, nEntries)
	okFields := true
	for i := range entries {
		switch i {
		case 0, 1, 4:
			c := zzChoose("b64", len(b64))
			entries[i] = b64[c]
			okFields = okFields && c != 1
		case 2:
			c := zzChoose("num", len(nums))
			entries[i] = nums[c]
			okFields = okFields && (c == 0 || c == 3)
		case 3:
			entries[i] = "pubkey"
		case 5:
			// the nested node info: undecodable, or a list of 0..3 entries whose metadata is (un)decodable
			switch k := zzChoose("inner", 6); k {
			case 0:
				entries[i] = "garbage"
				okFields = false
			default:
				inner := make([]string, k-1)
				for j := range inner {
					inner[j] = "x"
				}
				if k-1 >= 3 {
					if zzNondetBool("metaOK") {
						m, _ := json.Marshal(&NodeMetadata{NodeVersion: "v"})
						inner[2] = string(m)
					} else {
						okFields = false
					}
				}
				if k-1 < 2 {
					okFields = false
				}
				raw, _ := json.Marshal(&serializable{Entries: inner})
				entries[i] = string(raw)
			}
		default:
			entries[i] = "extra"
		}
	}
	data, _ := json.Marshal(&serializable{Entries: entries})
	sni := &SignedNodeInfo{}
	err := sni.UnmarshalRecord(data)
	if err == nil {
		zzReach("signed-ok")
		_ = okFields // C08 claims panic-freedom of the decoders only; which inputs they accept is not asserted
	} else {
		zzReach("signed-rejected")
	}
	ni := &NodeInfo{}
	err = ni.UnmarshalRecord(data)
	if err == nil {
		zzReach("plain-ok")
	}
	zzReach("end")
}
