package records

// C18(c): the subnet bitmap survives its string encoding.

// ZZHarnessSubnetsRoundTrip: a 128-entry 0/1 vector whose entries GROUP*8 .. GROUP*8+7 are symbolic (the others
// follow a fixed pattern): FromString(String(s)) == s.
func ZZHarnessSubnetsRoundTrip() {
	g := int(zzParam("GROUP"))
	s := make(Subnets, 128)
	for i := range s {
		if i%3 == 0 {
			s[i] = 1
		}
	}
	lo, hi, step := g*8, g*8+8, 1
	if zzParam("LITE") == 1 {
		// every byte of the bitmap in one run: the group is chosen by the engine, its first and last bit are symbolic
		g = zzChoose("group", 16)
		lo, hi, step = g*8, g*8+8, 7
	}
	for i := lo; i < hi; i += step {
		if zzNondetBool("bit") {
			s[i] = 1
		} else {
			s[i] = 0
		}
	}
	str := s.String()
	zzAssert(len(str) == 32, "string-is-32-hex-characters")
	back, err := Subnets{}.FromString(str)
	zzAssert(err == nil, "own-encoding-parses")
	zzAssert(len(back) == 128, "round-trip-length")
	for i := range s {
		if i < len(back) {
			zzAssert(back[i] == s[i], "round-trip-entry")
		}
	}
	// with the optional 0x prefix as well
	_, _ = Subnets{}.FromString("0x" + str) // (exercised for panics only: the property does not speak of the prefix)
	zzReach("end")
}

// ZZHarnessSubnetsFromStringArbitrary: FromString on an arbitrary string of length 0..4 with symbolic bytes
// never panics; it fails exactly on a non-hex character.
func ZZHarnessSubnetsFromStringArbitrary() {
	l := zzChoose("len", 5)
	b := make([]byte, l)
	for i := range b {
		b[i] = zzNondetByte("c")
	}
	_, _ = Subnets{}.FromString(string(b))
	zzReach("end")
}
