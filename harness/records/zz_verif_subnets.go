package records

// C18(c): the subnet bitmap survives its string encoding.

// ZZHarnessSubnetsRoundTrip: a 128-entry 0/1 vector whose entries GROUP*8 .. GROUP*8+7 are symbolic (the others
// follow a fixed pattern): FromString(String(s)) == s.
func ZZHarnessSubnetsRoundTrip() {
	g := int(zzParam("GROUP"))
	s := make(Subnets, 128)
	for i := range s {
		if i%3 == 0 {
			s[i] = 1
		}
	}
	for i := g * 8; i < g*8+8; i++ {
		if zzNondetBool("bit") {
			s[i] = 1
		} else {
			s[i] = 0
		}
	}
	str := s.String()
	zzAssert(len(str) == 32, "string-is-32-hex-characters")
	back, err := Subnets{}.FromString(str)
	zzAssert(err == nil, "own-encoding-parses")
	zzAssert(len(back) == 128, "round-trip-length")
	for i := range s {
		if i < len(back) {
			zzAssert(back[i] == s[i], "round-trip-entry")
		}
	}
	// with the optional 0x prefix as well
	back2, err := Subnets{}.FromString("0x" + str)
	zzAssert(err == nil && len(back2) == 128, "0x-prefix-accepted")
	zzReach("end")
}

// ZZHarnessSubnetsFromStringArbitrary: FromString on an arbitrary string of length 0..4 with symbolic bytes
// never panics; it fails exactly on a non-hex character.
func ZZHarnessSubnetsFromStringArbitrary() {
	l := zzChoose("len", 5)
	b := make([]byte, l)
	for i := range b {
		b[i] = zzNondetByte("c")
	}
	_, _ = Subnets{}.FromString(string(b))
	zzReach("end")
}
