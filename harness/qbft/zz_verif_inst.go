package instance

// QBFT instance harnesses (C01 lemmas L1-L5 + P-valid, C02(b,c), C06, C07(a)).
// Pre-states are reached by feeding honest messages to the real instance (prefix chosen by zzChoose),
// then ONE adversarial, fully symbolic message (or a timeout) is applied to the real ProcessMsg.

import (
	"errors"

	specqbft "github.com/bloxapp/ssv-spec/qbft"
	spectypes "github.com/bloxapp/ssv-spec/types"
	"go.uber.org/zap"

	"github.com/bloxapp/ssv/protocol/v2/qbft"
)

type zzTimer struct{ armed []specqbft.Round }

func (t *zzTimer) TimeoutForRound(h specqbft.Height, r specqbft.Round) { t.armed = append(t.armed, r) }

type zzSpecTimer struct{ armed []specqbft.Round }

func (t *zzSpecTimer) TimeoutForRound(r specqbft.Round) { t.armed = append(t.armed, r) }

type zzRig struct {
	n        int
	share    *spectypes.Share
	net      *zzNet
	tm       *zzTimer
	inst     *Instance
	id       []byte
	height   specqbft.Height
	valOK    bool
	valCalls [][]byte
	lg       *zap.Logger
}

func zzLeader(sh *spectypes.Share, h specqbft.Height, r specqbft.Round) spectypes.OperatorID {
	n := uint64(len(sh.Committee))
	idx := (uint64(r) - 1) % n
	if h != 0 {
		idx = (uint64(h)%n + uint64(r) - 1) % n
	}
	return sh.Committee[idx].OperatorID
}

func zzNewRig(n int, own spectypes.OperatorID, height specqbft.Height, startValue []byte) *zzRig {
	r := &zzRig{n: n, share: zzShareFor(n, own), net: &zzNet{}, tm: &zzTimer{}, height: height, lg: zap.NewNop()}
	r.valOK = zzNondetBool("valcheck")
	cfg := &qbft.Config{
		Signer: zzSigner{},
		Domain: spectypes.DomainType{0, 0, 3, 1},
		ValueCheckF: func(d []byte) error {
			r.valCalls = append(r.valCalls, d)
			if r.valOK {
				return nil
			}
			return errors.New("bad value")
		},
		ProposerF: func(s *specqbft.State, rd specqbft.Round) spectypes.OperatorID { return specqbft.RoundRobinProposer(s, rd) },
		Network:   r.net, Timer: r.tm, SignatureVerification: true,
	}
	r.id = make([]byte, 56)
	r.id[0] = 7
	r.inst = NewInstance(cfg, r.share, r.id, height)
	r.inst.Start(r.lg, startValue, height)
	return r
}

func (r *zzRig) msg(t specqbft.MessageType, round specqbft.Round, root [32]byte) specqbft.Message {
	return specqbft.Message{MsgType: t, Height: r.height, Round: round, Identifier: r.id, Root: root}
}

func (r *zzRig) others() []spectypes.OperatorID {
	var o []spectypes.OperatorID
	for _, c := range r.share.Committee {
		if c.OperatorID != r.share.OperatorID {
			o = append(o, c.OperatorID)
		}
	}
	return o
}

// zzPrefix drives the instance into one of several reachable states using honest messages.
//  0 fresh | 1 round-1 proposal accepted | 2 + quorum-1 prepares | 3 + quorum prepares (prepared, commit sent)
//  4 + quorum-1 commits | 5 timed out once from state 3 (round 2, locked) | 6 timed out once from state 0
//  7 fresh + one honest round-change for round 2 received
func (r *zzRig) prefix(kind int, value []byte) {
	if kind == 0 {
		return
	}
	if kind == 6 {
		_ = r.inst.UponRoundTimeout(r.lg)
		return
	}
	if kind == 7 {
		// one correct peer already announced round 2 (f more such messages pull us forward)
		rc := zzHonest(r.others()[0], r.msg(specqbft.RoundChangeMsgType, 2, [32]byte{}), nil)
		_, _, _, err := r.inst.ProcessMsg(r.lg, rc)
		zzAssume(err == nil)
		return
	}
	root, _ := zzHashDataRoot(value)
	leader := zzLeader(r.share, r.height, 1)
	if leader != r.share.OperatorID {
		_, _, _, err := r.inst.ProcessMsg(r.lg, zzHonest(leader, r.msg(specqbft.ProposalMsgType, 1, root), value))
		zzAssume(err == nil)
	} else {
		// own proposal was broadcast by Start; it comes back to us like any other message
		own := r.net.msgs[0]
		_, _, _, err := r.inst.ProcessMsg(r.lg, zzCopyMsg(own))
		zzAssume(err == nil)
	}
	if kind == 1 {
		return
	}
	q := int(r.share.Quorum)
	oth := r.others()
	np := q - 1
	if kind >= 3 {
		np = q
	}
	for k := 0; k < np; k++ {
		_, _, _, err := r.inst.ProcessMsg(r.lg, zzHonest(oth[k], r.msg(specqbft.PrepareMsgType, 1, root), nil))
		zzAssume(err == nil)
	}
	if kind <= 3 {
		return
	}
	if kind == 4 {
		for k := 0; k < q-1; k++ {
			_, _, _, err := r.inst.ProcessMsg(r.lg, zzHonest(oth[k], r.msg(specqbft.CommitMsgType, 1, root), nil))
			zzAssume(err == nil)
		}
		return
	}
	if kind == 5 {
		_ = r.inst.UponRoundTimeout(r.lg)
	}
}

type zzSnap struct {
	round, lpr specqbft.Round
	accepted   *specqbft.SignedMessage
	decided    bool
	nBroadcast int
	nArmed     int
}

func (r *zzRig) snap() zzSnap {
	s := r.inst.State
	return zzSnap{round: s.Round, lpr: s.LastPreparedRound, accepted: s.ProposalAcceptedForCurrentRound, decided: s.Decided,
		nBroadcast: len(r.net.msgs), nArmed: len(r.tm.armed)}
}

// zzCheckPValid asserts the acceptance conditions of a proposal m that became the accepted proposal.
func (r *zzRig) checkPValid(pre zzSnap, m *specqbft.SignedMessage) {
	st := r.inst.State
	zzAssert(m.Message.MsgType == specqbft.ProposalMsgType, "pv-type-proposal")
	zzAssert(m.Message.Height == r.height, "pv-height")
	zzAssert(m.Message.Round >= pre.round && m.Message.Round >= 1, "pv-round-not-past")
	zzAssert(m.Message.Round > pre.round || pre.accepted == nil, "pv-one-proposal-per-round")
	zzAssert(len(m.Signers) == 1, "pv-single-signer")
	if len(m.Signers) == 1 {
		zzAssert(m.Signers[0] == zzLeader(r.share, r.height, m.Message.Round), "pv-leader")
	}
	zzAssert(zzSigValid(m), "pv-signature")
	h, _ := zzHashDataRoot(m.FullData)
	zzAssert(h == m.Message.Root, "pv-data-hashes-to-root")
	zzAssert(r.valOK, "pv-value-check-passed")
	called := false
	for _, d := range r.valCalls {
		if len(d) == len(m.FullData) && (len(d) == 0 || d[0] == m.FullData[0]) {
			called = true
		}
	}
	zzAssert(called, "pv-value-check-called-on-proposed-data")
	// (the identifier is checked by Controller.BaseMsgValidation, not by the instance: asserted in the controller harness)
	if m.Message.Round > 1 {
		rcj, err1 := m.Message.GetRoundChangeJustifications()
		pj, err2 := m.Message.GetPrepareJustifications()
		zzAssert(err1 == nil && err2 == nil, "pv-justifications-decodable")
		seen := map[spectypes.OperatorID]bool{}
		var highest *specqbft.SignedMessage
		for _, rc := range rcj {
			zzAssert(rc.Message.MsgType == specqbft.RoundChangeMsgType && rc.Message.Height == r.height && rc.Message.Round == m.Message.Round, "pv-rc-type-height-round")
			zzAssert(len(rc.Signers) == 1 && zzInCommittee(r.share, rc.Signers[0]), "pv-rc-signer-in-committee")
			zzAssert(zzSigValid(rc), "pv-rc-signature")
			seen[rc.Signers[0]] = true
			if rc.Message.DataRound != 0 {
				if highest == nil || highest.Message.DataRound < rc.Message.DataRound {
					highest = rc
				}
			}
		}
		zzAssert(uint64(len(seen)) >= st.Share.Quorum, "pv-rc-quorum-of-distinct-signers")
		if highest != nil {
			zzAssert(highest.Message.Root == m.Message.Root, "pv-reproposes-highest-prepared")
			pseen := map[spectypes.OperatorID]bool{}
			for _, p := range pj {
				zzAssert(p.Message.MsgType == specqbft.PrepareMsgType && p.Message.Height == r.height &&
					p.Message.Round == highest.Message.DataRound && p.Message.Root == highest.Message.Root, "pv-prepare-matches-highest-prepared")
				zzAssert(len(p.Signers) == 1 && zzInCommittee(r.share, p.Signers[0]) && zzSigValid(p), "pv-prepare-signed-by-member")
				pseen[p.Signers[0]] = true
			}
			zzAssert(uint64(len(pseen)) >= st.Share.Quorum, "pv-prepare-quorum")
		}
	}
}

// ZZHarnessStep: one adversarial message from a reachable state; asserts lemmas L1-L4 and P-valid.
func ZZHarnessStep() {
	n := int(zzParam("N"))
	own := zzCommitteeIDs[n][int(zzParam("OWN"))]
	height := specqbft.Height(zzNondetRange("iheight", 0, uint64(n)))
	value := []byte{9}
	r := zzNewRig(n, own, height, value)
	kind := 0
	if p := int(zzParam("PREFIX")); p > 0 {
		kind = p - 1
	} else {
		kind = zzChoose("prefix", 8)
	}
	r.prefix(kind, value)
	pre := r.snap()
	m := zzSymMsg(r.id)
	decided, decidedValue, agg, err := r.inst.ProcessMsg(r.lg, m)
	st := r.inst.State
	post := r.snap()
	if err == nil {
		zzReach("accepted")
	} else {
		zzReach("rejected")
	}
	newMsgs := r.net.msgs[pre.nBroadcast:]

	// L4 monotonicity
	zzAssert(post.round >= pre.round, "L4-round-monotone")
	if post.round != pre.round {
		zzReach("round-bumped")
		// whoever moves to a new round arms its timer for that round (else its next timeout is dropped as stale)
		zzAssert(post.nArmed == pre.nArmed+1 && r.tm.armed[post.nArmed-1] == post.round, "round-bump-arms-timer-for-the-new-round")
		zzAssert(post.accepted == nil || post.accepted == m, "round-bump-clears-old-accepted-proposal")
	} else {
		zzAssert(post.nArmed == pre.nArmed, "no-timer-arming-without-round-change")
	}
	zzAssert(post.lpr >= pre.lpr && post.lpr <= post.round, "L4-prepared-round-monotone-and-bounded")
	if err != nil {
		zzAssert(len(newMsgs) == 0, "rejected-message-causes-no-broadcast")
		zzAssert(post.accepted == pre.accepted && post.round == pre.round && post.lpr == pre.lpr && post.decided == pre.decided, "rejected-message-changes-nothing")
	}
	// acceptance of a proposal
	if post.accepted != pre.accepted && post.accepted != nil {
		zzReach("proposal-accepted")
		zzAssert(post.accepted == m, "accepted-proposal-is-this-message")
		r.checkPValid(pre, m)
	}
	nPrep, nCommit, nRC, nProp := 0, 0, 0, 0
	for _, b := range newMsgs {
		zzAssert(b != nil, "broadcast-decodable")
		if b == nil {
			continue
		}
		zzAssert(len(b.Signers) == 1 && b.Signers[0] == own, "broadcast-signed-by-self")
		zzAssert(b.Message.Height == r.height, "broadcast-own-height")
		switch b.Message.MsgType {
		case specqbft.PrepareMsgType:
			nPrep++
			// L1: prepare only in the step that accepts a proposal, for exactly that proposal
			zzAssert(post.accepted == m && post.accepted != pre.accepted, "L1-prepare-only-on-proposal-acceptance")
			zzAssert(b.Message.Round == m.Message.Round && b.Message.Root == m.Message.Root, "L1-prepare-matches-accepted-proposal")
		case specqbft.CommitMsgType:
			nCommit++
			zzReach("commit-sent")
			zzAssert(post.accepted != nil, "L2-commit-needs-accepted-proposal")
			if post.accepted != nil {
				zzAssert(b.Message.Round == post.round && b.Message.Root == post.accepted.Message.Root, "L2-commit-for-accepted-root-and-current-round")
				cnt := map[spectypes.OperatorID]bool{}
				for _, p := range st.PrepareContainer.MessagesForRound(post.round) {
					if p.Message.Root == post.accepted.Message.Root && len(p.Signers) == 1 && zzInCommittee(r.share, p.Signers[0]) && zzSigValid(p) {
						cnt[p.Signers[0]] = true
					}
				}
				zzAssert(uint64(len(cnt)) >= st.Share.Quorum, "L2-commit-needs-prepare-quorum")
				zzAssert(post.lpr == post.round, "L2-lock-set-to-current-round")
				zzAssert(len(st.LastPreparedValue) == len(post.accepted.FullData) && (len(st.LastPreparedValue) == 0 || st.LastPreparedValue[0] == post.accepted.FullData[0]), "L2-lock-value-is-accepted-value")
			}
		case specqbft.RoundChangeMsgType:
			nRC++
			zzAssert(b.Message.Round > pre.round, "L5-roundchange-for-higher-round")
			zzAssert(b.Message.DataRound == pre.lpr, "L5-roundchange-carries-lock-round")
		case specqbft.ProposalMsgType:
			nProp++
			zzAssert(zzLeader(r.share, r.height, b.Message.Round) == own, "own-proposal-only-as-leader")
		}
	}
	zzAssert(nPrep <= 1 && nCommit <= 1 && nRC <= 1 && nProp <= 1, "at-most-one-broadcast-per-type-per-step")
	if post.lpr != pre.lpr {
		zzAssert(nCommit == 1, "lock-changes-only-with-commit")
	}
	// L3 / C02(b): decision
	if decided && !pre.decided {
		zzReach("decided")
		zzAssert(post.accepted != nil, "L3-decision-needs-accepted-proposal")
		zzAssert(agg != nil, "L3-decision-returns-certificate")
		if post.accepted != nil && agg != nil {
			zzAssert(len(decidedValue) == len(post.accepted.FullData) && (len(decidedValue) == 0 || decidedValue[0] == post.accepted.FullData[0]), "L3-decided-value-is-accepted-value")
			zzAssert(agg.Message.Root == post.accepted.Message.Root && agg.Message.MsgType == specqbft.CommitMsgType && agg.Message.Height == r.height, "L3-certificate-for-accepted-root")
			zzAssert(uint64(len(agg.Signers)) >= st.Share.Quorum, "L3-certificate-has-quorum")
			for k, s := range agg.Signers {
				zzAssert(zzInCommittee(r.share, s), "L3-certificate-signers-in-committee")
				if k > 0 {
					zzAssert(agg.Signers[k-1] < s, "L3-certificate-signers-sorted-distinct")
				}
			}
			zzAssert(zzSigValid(agg), "L3-certificate-signature-verifies-for-exactly-its-signers")
			hr, _ := zzHashDataRoot(agg.FullData)
			zzAssert(hr == agg.Message.Root, "L3-certificate-data-hashes-to-root")
		}
	}
	if !decided {
		zzAssert(!post.decided, "decided-flag-only-with-decision")
	}
}

// ZZHarnessTimeout (C07a): from a reachable state a round timeout always advances the round by one,
// clears the accepted proposal, re-arms the timer and announces the new round carrying the lock.
func ZZHarnessTimeout() {
	n := int(zzParam("N"))
	own := zzCommitteeIDs[n][int(zzParam("OWN"))]
	height := specqbft.Height(zzNondetRange("iheight", 0, uint64(n)))
	value := []byte{9}
	r := zzNewRig(n, own, height, value)
	kind := zzChoose("prefix", 7)
	r.prefix(kind, value)
	pre := r.snap()
	preLPV := r.inst.State.LastPreparedValue
	err := r.inst.UponRoundTimeout(r.lg)
	post := r.snap()
	zzAssert(err == nil, "timeout-processed-before-cutoff")
	zzAssert(post.round == pre.round+1, "timeout-advances-round-by-one")
	zzAssert(post.accepted == nil, "timeout-clears-accepted-proposal")
	zzAssert(post.nArmed == pre.nArmed+1 && r.tm.armed[post.nArmed-1] == post.round, "timeout-rearms-timer-for-new-round")
	newMsgs := r.net.msgs[pre.nBroadcast:]
	zzAssert(len(newMsgs) == 1, "timeout-announces-new-round-once")
	if len(newMsgs) == 1 && newMsgs[0] != nil {
		b := newMsgs[0]
		zzAssert(b.Message.MsgType == specqbft.RoundChangeMsgType && b.Message.Round == post.round && b.Message.Height == r.height, "roundchange-for-new-round")
		zzAssert(b.Message.DataRound == pre.lpr, "roundchange-carries-lock-round")
		if pre.lpr != 0 {
			hr, _ := zzHashDataRoot(preLPV)
			zzAssert(b.Message.Root == hr && len(b.FullData) == len(preLPV), "roundchange-carries-lock-value")
			pj, errj := b.Message.GetRoundChangeJustifications()
			zzAssert(errj == nil && uint64(zzDistinctSigners(pj)) >= r.share.Quorum, "roundchange-carries-prepare-quorum")
			zzReach("locked-roundchange")
		} else {
			zzAssert(b.Message.Root == [32]byte{} && len(b.FullData) == 0, "unprepared-roundchange-is-empty")
		}
		zzAssert(zzSigValid(b), "roundchange-signed")
	}
	zzReach("end")
}

// ---------------------------------------------------------------------------------------------
// C06: node instance vs the vendored ssv-spec instance, and compaction.

type zzSpecRig struct {
	net  *zzNet
	tm   *zzSpecTimer
	inst *specqbft.Instance
}

func zzNewSpecRig(r *zzRig, startValue []byte) *zzSpecRig {
	s := &zzSpecRig{net: &zzNet{}, tm: &zzSpecTimer{}}
	cfg := &specqbft.Config{
		Signer: zzSigner{},
		Domain: spectypes.DomainType{0, 0, 3, 1},
		ValueCheckF: func(d []byte) error {
			if r.valOK {
				return nil
			}
			return errors.New("bad value")
		},
		ProposerF: func(st *specqbft.State, rd specqbft.Round) spectypes.OperatorID { return specqbft.RoundRobinProposer(st, rd) },
		Network:   s.net, Timer: s.tm,
	}
	s.inst = specqbft.NewInstance(cfg, zzShareFor(r.n, r.share.OperatorID), r.id, r.height)
	s.inst.Start(startValue, r.height)
	return s
}

// the honest prefix as a list of inputs (nil = round timeout), so that it can be fed to several instances
// zzLoop stands for "the operator's own latest broadcast comes back to it" (a node receives its own messages
// from the network like everybody else's).
var zzLoop = &specqbft.SignedMessage{}

// (kinds 8 and 9 of the differential prefixes)
//  8 timed out once from the fresh state, own round-change looped back, one honest round-change for round 3 received
//  9 prepared in round 1, then two consecutive timeouts with the own round-changes looped back (round 3, still locked)
func (r *zzRig) prefixInputs(kind int, value []byte, ownFirstBroadcast *specqbft.SignedMessage) []*specqbft.SignedMessage {
	var in []*specqbft.SignedMessage
	if kind == 0 {
		return in
	}
	if kind == 6 {
		return append(in, nil)
	}
	if kind == 8 {
		return append(in, nil, zzLoop, zzHonest(r.others()[0], r.msg(specqbft.RoundChangeMsgType, 3, [32]byte{}), nil))
	}
	if kind == 9 {
		in = r.prefixInputs(3, value, ownFirstBroadcast)
		return append(in, nil, zzLoop, nil, zzLoop)
	}
	if kind == 11 {
		// the operator LEADS round 2 and is in it (timeout, own round-change looped back); a round-change of a peer
		// that prepared value P in round 1 (with its prepare quorum as justification) has arrived; the next
		// round-change completes the quorum (which value the leader proposes then depends on the delivery order)
		zzAssume(zzLeader(r.share, r.height, 2) == r.share.OperatorID)
		oth := r.others()
		pv := []byte{5}
		proot, _ := zzHashDataRoot(pv)
		var ps []*specqbft.SignedMessage
		for k := 0; k < int(r.share.Quorum); k++ {
			ps = append(ps, zzHonest(r.share.Committee[k].OperatorID, r.msg(specqbft.PrepareMsgType, 1, proot), nil))
		}
		j, _ := specqbft.MarshalJustifications(ps)
		m := r.msg(specqbft.RoundChangeMsgType, 2, proot)
		m.DataRound = 1
		m.RoundChangeJustification = j
		return append(in, nil, zzLoop, zzHonest(oth[0], m, pv))
	}
	if kind == 10 {
		// round 2 reached through a completed round change: own round-change looped back plus two more (a quorum
		// for the CURRENT round is held), then one round-change for round 3
		oth := r.others()
		return append(in, nil, zzLoop,
			zzHonest(oth[0], r.msg(specqbft.RoundChangeMsgType, 2, [32]byte{}), nil),
			zzHonest(oth[1], r.msg(specqbft.RoundChangeMsgType, 2, [32]byte{}), nil),
			zzHonest(oth[0], r.msg(specqbft.RoundChangeMsgType, 3, [32]byte{}), nil))
	}
	root, _ := zzHashDataRoot(value)
	leader := zzLeader(r.share, r.height, 1)
	if leader != r.share.OperatorID {
		in = append(in, zzHonest(leader, r.msg(specqbft.ProposalMsgType, 1, root), value))
	} else {
		in = append(in, zzCopyMsg(ownFirstBroadcast))
	}
	if kind == 1 {
		return in
	}
	q := int(r.share.Quorum)
	oth := r.others()
	np := q - 1
	if kind >= 3 {
		np = q
	}
	for k := 0; k < np; k++ {
		in = append(in, zzHonest(oth[k], r.msg(specqbft.PrepareMsgType, 1, root), nil))
	}
	if kind <= 3 {
		return in
	}
	if kind == 4 || kind == 7 {
		nc := q - 1
		if kind == 7 {
			nc = q
		}
		for k := 0; k < nc; k++ {
			in = append(in, zzHonest(oth[k], r.msg(specqbft.CommitMsgType, 1, root), nil))
		}
		return in
	}
	if kind == 5 {
		in = append(in, nil)
	}
	return in
}

func zzSameMsg(a, b *specqbft.SignedMessage) bool {
	if (a == nil) != (b == nil) {
		return false
	}
	if a == nil {
		return true
	}
	if a.Message.MsgType != b.Message.MsgType || a.Message.Height != b.Message.Height || a.Message.Round != b.Message.Round ||
		a.Message.Root != b.Message.Root || a.Message.DataRound != b.Message.DataRound ||
		len(a.Message.RoundChangeJustification) != len(b.Message.RoundChangeJustification) ||
		len(a.Message.PrepareJustification) != len(b.Message.PrepareJustification) ||
		len(a.Signers) != len(b.Signers) || len(a.FullData) != len(b.FullData) || len(a.Signature) != len(b.Signature) {
		return false
	}
	// signers are compared as sets: the node sorts the signer list of the commit aggregate (its message
	// validation demands sorted signers), the spec keeps arrival order - a deliberate node-side difference
	for _, x := range a.Signers {
		found := false
		for _, y := range b.Signers {
			if x == y {
				found = true
			}
		}
		if !found {
			return false
		}
	}
	for i := range a.FullData {
		if a.FullData[i] != b.FullData[i] {
			return false
		}
	}
	if len(a.Signers) == 1 {
		for i := range a.Signature {
			if a.Signature[i] != b.Signature[i] {
				return false
			}
		}
	}
	return true
}

func zzSameContainer(a, b *specqbft.MsgContainer) bool {
	for rd := specqbft.Round(0); rd <= 6; rd++ {
		ma, mb := a.MessagesForRound(rd), b.MessagesForRound(rd)
		if len(ma) != len(mb) {
			return false
		}
		for i := range ma {
			if !zzSameMsg(ma[i], mb[i]) {
				return false
			}
		}
	}
	return true
}

func zzSameState(a, b *specqbft.State, label string) {
	zzAssert(a.Round == b.Round, label+"-same-round")
	zzAssert(a.Height == b.Height, label+"-same-height")
	zzAssert(a.LastPreparedRound == b.LastPreparedRound, label+"-same-last-prepared-round")
	zzAssert(len(a.LastPreparedValue) == len(b.LastPreparedValue) && (len(a.LastPreparedValue) == 0 || a.LastPreparedValue[0] == b.LastPreparedValue[0]), label+"-same-last-prepared-value")
	zzAssert(a.Decided == b.Decided, label+"-same-decided-flag")
	zzAssert(len(a.DecidedValue) == len(b.DecidedValue) && (len(a.DecidedValue) == 0 || a.DecidedValue[0] == b.DecidedValue[0]), label+"-same-decided-value")
	zzAssert(zzSameMsg(a.ProposalAcceptedForCurrentRound, b.ProposalAcceptedForCurrentRound), label+"-same-accepted-proposal")
}

func zzSameBroadcasts(a, b []*specqbft.SignedMessage, label string) {
	zzAssert(len(a) == len(b), label+"-same-number-of-broadcasts")
	for i := 0; i < len(a) && i < len(b); i++ {
		zzAssert(zzSameMsg(a[i], b[i]), label+"-same-broadcast-content")
	}
}

// ZZHarnessDiff (C06a,b): identical honest prefix to both implementations, then one adversarial message
// (or a timeout): same acceptance, broadcasts, decision, timer armings and protocol state.
func ZZHarnessDiff() {
	n := int(zzParam("N"))
	own := zzCommitteeIDs[n][int(zzParam("OWN"))]
	height := specqbft.Height(zzNondetRange("iheight", 0, uint64(n)))
	value := []byte{9}
	a := zzNewRig(n, own, height, value)
	b := zzNewSpecRig(a, value)
	zzSameBroadcasts(a.net.msgs, b.net.msgs, "start")
	kind := 0
	if p := int(zzParam("PREFIX")); p > 0 {
		kind = p - 1
	} else {
		kind = zzChoose("prefix", 12)
	}
	var first *specqbft.SignedMessage
	if len(a.net.msgs) > 0 {
		first = a.net.msgs[0]
	}
	for _, in := range a.prefixInputs(kind, value, first) {
		if in == zzLoop {
			zzAssume(len(a.net.msgs) > 0)
			in = a.net.msgs[len(a.net.msgs)-1]
		}
		if in == nil {
			ea := a.inst.UponRoundTimeout(a.lg)
			eb := b.inst.UponRoundTimeout()
			zzAssume(ea == nil && eb == nil)
		} else {
			_, _, _, ea := a.inst.ProcessMsg(a.lg, zzCopyMsg(in))
			_, _, _, eb := b.inst.ProcessMsg(zzCopyMsg(in))
			zzAssume(ea == nil && eb == nil)
		}
	}
	zzSameBroadcasts(a.net.msgs, b.net.msgs, "prefix")
	zzSameState(a.inst.State, b.inst.State, "prefix")
	if zzNondetBool("timeoutStep") {
		ea := a.inst.UponRoundTimeout(a.lg)
		eb := b.inst.UponRoundTimeout()
		zzAssert((ea == nil) == (eb == nil), "timeout-same-acceptance")
		zzReach("timeout-step")
	} else {
		m := zzSymMsg(a.id)
		da, va, ga, ea := a.inst.ProcessMsg(a.lg, zzCopyMsg(m))
		db, vb, gb, eb := b.inst.ProcessMsg(zzCopyMsg(m))
		zzAssert((ea == nil) == (eb == nil), "same-acceptance")
		zzAssert(da == db, "same-decided-result")
		zzAssert(len(va) == len(vb) && (len(va) == 0 || va[0] == vb[0]), "same-decided-value-result")
		zzAssert(zzSameMsg(ga, gb), "same-aggregated-commit")
		if ea == nil {
			zzReach("both-accept")
		} else {
			zzReach("both-reject")
		}
	}
	zzSameBroadcasts(a.net.msgs, b.net.msgs, "step")
	zzSameState(a.inst.State, b.inst.State, "step")
	zzAssert(len(a.tm.armed) == len(b.tm.armed), "same-number-of-timer-armings")
	for i := 0; i < len(a.tm.armed) && i < len(b.tm.armed); i++ {
		zzAssert(a.tm.armed[i] == b.tm.armed[i], "same-timer-rounds")
	}
	zzAssert(zzSameContainer(a.inst.State.ProposeContainer, b.inst.State.ProposeContainer) &&
		zzSameContainer(a.inst.State.PrepareContainer, b.inst.State.PrepareContainer) &&
		zzSameContainer(a.inst.State.CommitContainer, b.inst.State.CommitContainer) &&
		zzSameContainer(a.inst.State.RoundChangeContainer, b.inst.State.RoundChangeContainer), "same-containers")
}

// ZZHarnessCompact (C06c): two node instances with the same honest prefix; one is compacted exactly as
// BaseRunner.compactInstanceIfNeeded does (on a round-change or decided message); then K further inputs
// (replays of earlier honest messages, fresh honest messages, timeouts) go to both: outputs must be equal.
func ZZHarnessCompact() {
	n := int(zzParam("N"))
	k := int(zzParam("K"))
	own := zzCommitteeIDs[n][int(zzParam("OWN"))]
	height := specqbft.Height(zzNondetRange("iheight", 0, uint64(n)))
	value := []byte{9}
	a := zzNewRig(n, own, height, value)
	b := zzNewRig(n, own, height, value)
	b.valOK = a.valOK
	kind := zzChoose("prefix", 8)
	var first *specqbft.SignedMessage
	if len(a.net.msgs) > 0 {
		first = a.net.msgs[0]
	}
	inputs := a.prefixInputs(kind, value, first)
	for _, in := range inputs {
		if in == nil {
			zzAssume(a.inst.UponRoundTimeout(a.lg) == nil && b.inst.UponRoundTimeout(b.lg) == nil)
		} else {
			_, _, _, ea := a.inst.ProcessMsg(a.lg, zzCopyMsg(in))
			_, _, _, eb := b.inst.ProcessMsg(b.lg, zzCopyMsg(in))
			zzAssume(ea == nil && eb == nil)
		}
	}
	// candidates for later delivery: replays of the prefix plus an honest round-change for the next round
	oth := a.others()
	rc := zzHonest(oth[len(oth)-1], specqbft.Message{MsgType: specqbft.RoundChangeMsgType, Height: height, Round: a.inst.State.Round + 1, Identifier: a.id}, nil)
	var cands []*specqbft.SignedMessage
	for _, in := range inputs {
		if in != nil {
			cands = append(cands, in)
		}
	}
	cands = append(cands, rc)
	// fresh honest messages of the current round from the member that has not spoken yet
	vroot, _ := zzHashDataRoot(value)
	late := oth[len(oth)-1]
	cands = append(cands, zzHonest(late, a.msg(specqbft.PrepareMsgType, 1, vroot), nil))
	cands = append(cands, zzHonest(late, a.msg(specqbft.CommitMsgType, 1, vroot), nil))
	// the compaction trigger: a round-change message processed by both; only b is compacted afterwards
	_, _, _, ta := a.inst.ProcessMsg(a.lg, zzCopyMsg(rc))
	_, _, _, tb := b.inst.ProcessMsg(b.lg, zzCopyMsg(rc))
	zzAssert((ta == nil) == (tb == nil), "trigger-same-acceptance")
	Compact(b.inst.State, rc)
	zzReach("compacted")
	for step := 0; step < k; step++ {
		c := zzChoose("next", len(cands)+1)
		if c == len(cands) {
			ea := a.inst.UponRoundTimeout(a.lg)
			eb := b.inst.UponRoundTimeout(b.lg)
			zzAssert((ea == nil) == (eb == nil), "compact-timeout-same-acceptance")
		} else {
			da, _, _, ea := a.inst.ProcessMsg(a.lg, zzCopyMsg(cands[c]))
			db, _, _, eb := b.inst.ProcessMsg(b.lg, zzCopyMsg(cands[c]))
			zzAssert((ea == nil) == (eb == nil), "compact-same-acceptance")
			zzAssert(da == db, "compact-same-decided-result")
		}
		zzSameBroadcasts(a.net.msgs, b.net.msgs, "compact")
		zzAssert(a.inst.State.Round == b.inst.State.Round && a.inst.State.Decided == b.inst.State.Decided &&
			a.inst.State.LastPreparedRound == b.inst.State.LastPreparedRound, "compact-same-protocol-state")
	}
}

// ---------------------------------------------------------------------------------------------
// C07(b): fault-free synchronous run: n real instances, all-to-all in-order delivery.

func ZZHarnessSyncRound1() {
	n := int(zzParam("N"))
	height := specqbft.Height(zzNondetRange("iheight", 0, uint64(n)))
	rigs := make([]*zzRig, n)
	vals := make([][]byte, n)
	for i := 0; i < n; i++ {
		vals[i] = []byte{zzNondetByte("startvalue")}
		rigs[i] = zzNewRig(n, zzCommitteeIDs[n][i], height, vals[i])
		zzAssume(rigs[i].valOK) // fault-free case: every proposed value is valid
	}
	leaderIdx := 0
	for i := range rigs {
		if rigs[i].share.OperatorID == zzLeader(rigs[0].share, height, 1) {
			leaderIdx = i
		}
	}
	delivered := make([]int, n) // per sender: how many of its broadcasts were delivered
	for sweep := 0; sweep < 6; sweep++ {
		progress := false
		for s := 0; s < n; s++ {
			for delivered[s] < len(rigs[s].net.msgs) {
				m := rigs[s].net.msgs[delivered[s]]
				delivered[s]++
				progress = true
				if m == nil {
					continue
				}
				for d := 0; d < n; d++ {
					_, _, _, err := rigs[d].inst.ProcessMsg(rigs[d].lg, zzCopyMsg(m))
					// in a fault-free in-order run no honest message is refused, except commits that arrive after
					// the decision was already aggregated and re-broadcast
					_ = err
				}
			}
		}
		if !progress {
			break
		}
	}
	for i := 0; i < n; i++ {
		st := rigs[i].inst.State
		zzAssert(st.Decided, "sync-everyone-decides")
		zzAssert(st.Round == 1, "sync-decides-in-round-1")
		zzAssert(len(st.DecidedValue) == 1 && st.DecidedValue[0] == vals[leaderIdx][0], "sync-decides-leaders-value")
		zzAssert(len(rigs[i].tm.armed) == 1, "sync-no-extra-timer-armings")
	}
	zzReach("end")
}

// ---------------------------------------------------------------------------------------------
// Justified proposals (rounds > 1): honest template + one symbolic mutation ("every honest message with
// every single rule-breaking mutation"), complementing the fully symbolic justification sets of the
// thorough tier.

// zzMutate replaces one field of sm by a fresh symbolic value.
func zzMutate(sm *specqbft.SignedMessage, field int) {
	switch field {
	case 0:
		sm.Message.MsgType = specqbft.MessageType(zzNondetRange("mut-type", 0, 5))
	case 1:
		sm.Message.Height = specqbft.Height(zzNondetU64("mut-height"))
	case 2:
		sm.Message.Round = specqbft.Round(zzNondetRange("mut-round", 0, 6))
	case 3:
		sm.Signers = []spectypes.OperatorID{spectypes.OperatorID(zzNondetRange("mut-signer", 0, 12))}
	case 4:
		sm.Signature = append([]byte{}, sm.Signature...)
		sm.Signature[0] = zzNondetByte("mut-sigflag")
	case 5:
		sm.Signature = append([]byte{}, sm.Signature...)
		sm.Signature[1] = zzNondetByte("mut-sigkey")
	case 6:
		sm.Signature = append([]byte{}, sm.Signature...)
		sm.Signature[16] ^= 0x80 // signature over another message
	case 7:
		sm.Message.Root[1] = zzNondetByte("mut-root1")
	case 8:
		sm.Message.DataRound = specqbft.Round(zzNondetRange("mut-dataround", 0, 4))
	case 9:
		sm.Signers = append(sm.Signers, spectypes.OperatorID(zzNondetRange("mut-extrasigner", 0, 12)))
	}
}

const zzNumMutations = 10

// resign re-signs sm honestly (used for inner messages whose content was built by the harness).
func zzResign(sm *specqbft.SignedMessage) {
	mr, _ := zzMessageRoot(&sm.Message)
	sm.Signature = zzSigBy(byte(sm.Signers[0]), mr)
}

// ZZHarnessJustifiedProposal: own operator sits in round ROUND-1 or ROUND (after timeouts); the leader of
// ROUND sends a proposal justified by a round-change quorum in one of three shapes (all unprepared / one
// sender prepared on value v at round 1 with a prepare quorum / two senders prepared on the same value at
// rounds 1 and 2); one field of one component is replaced by a symbolic value. Acceptance => P-valid.
func ZZHarnessJustifiedProposal() {
	n := int(zzParam("N"))
	own := zzCommitteeIDs[n][int(zzParam("OWN"))]
	round := specqbft.Round(zzParam("ROUND"))
	height := specqbft.Height(zzNondetRange("iheight", 0, uint64(n)))
	value := []byte{9}
	r := zzNewRig(n, own, height, value)
	// own operator times out until it is in round-1 or round (Choose)
	target := round - specqbft.Round(zzChoose("lag", 2))
	for r.inst.State.Round < target {
		zzAssume(r.inst.UponRoundTimeout(r.lg) == nil)
	}
	q := int(r.share.Quorum)
	leader := zzLeader(r.share, height, round)
	shape := 0
	if sp := int(zzParam("SHAPE")); sp > 0 {
		shape = sp - 1
	} else {
		shape = zzChoose("shape", 3)
	}
	if shape == 2 && round < 3 {
		shape = 1
	}
	pv := []byte{5} // the prepared value
	proot, _ := zzHashDataRoot(pv)
	// senders of the round changes: the leader itself first, then other members
	var senders []spectypes.OperatorID
	senders = append(senders, leader)
	for _, c := range r.share.Committee {
		if c.OperatorID != leader && len(senders) < q {
			senders = append(senders, c.OperatorID)
		}
	}
	mkPrepares := func(rd specqbft.Round) []*specqbft.SignedMessage {
		var ps []*specqbft.SignedMessage
		for k := 0; k < q; k++ {
			ps = append(ps, zzHonest(r.share.Committee[k].OperatorID, specqbft.Message{MsgType: specqbft.PrepareMsgType, Height: height, Round: rd, Identifier: r.id, Root: proot}, nil))
		}
		return ps
	}
	var rcs []*specqbft.SignedMessage
	var highestPrepares []*specqbft.SignedMessage
	for k, s := range senders {
		m := specqbft.Message{MsgType: specqbft.RoundChangeMsgType, Height: height, Round: round, Identifier: r.id}
		var fd []byte
		preparedAt := specqbft.Round(0)
		if shape == 1 && k == 1 {
			preparedAt = 1
		}
		if shape == 2 && k == 1 {
			preparedAt = 1
		}
		if shape == 2 && k == 2 {
			preparedAt = 2
		}
		if preparedAt != 0 {
			m.Root, m.DataRound, fd = proot, preparedAt, pv
			ps := mkPrepares(preparedAt)
			j, _ := specqbft.MarshalJustifications(ps)
			m.RoundChangeJustification = j
			highestPrepares = ps
		}
		rcs = append(rcs, zzHonest(s, m, fd))
	}
	propValue := value
	if shape != 0 {
		propValue = pv
	}
	// exactly one deviation from the honest template:
	//  0 none | 1 a field of one round change | 2 a field of one prepare | 3 a field of the proposal |
	//  4 another value proposed | 5 one round change missing | 6 one prepare missing
	// content fields (type, height, round, signer, root, data round, extra signer) are re-signed by the claimed
	// signer (a member can sign anything with its own key); signature fields (flag, key, binding) keep the content.
	where := zzChoose("mutate-where", 7)
	field := 0
	if where >= 1 && where <= 3 {
		field = zzChoose("mutate-field", zzNumMutations)
	}
	mutate := func(sm *specqbft.SignedMessage) {
		zzMutate(sm, field)
		contentField := field <= 3 || field >= 7
		if contentField && len(sm.Signers) >= 1 && sm.Signers[0] < 256 {
			mr, _ := zzMessageRoot(&sm.Message)
			sig := zzSigBy(byte(sm.Signers[0]), mr)
			if len(sm.Signers) == 2 && sm.Signers[1] < 256 {
				sig[2] = byte(sm.Signers[1])
			}
			sm.Signature = sig
		}
	}
	switch where {
	case 1:
		mutate(rcs[zzChoose("mutate-which-rc", len(rcs))])
	case 2:
		if len(highestPrepares) > 0 {
			mutate(highestPrepares[zzChoose("mutate-which-prepare", len(highestPrepares))])
			// the prepares travel inside the prepared round change too
			for _, rc := range rcs {
				if rc.Message.DataRound != 0 {
					j, _ := specqbft.MarshalJustifications(highestPrepares)
					rc.Message.RoundChangeJustification = j
					zzResign(rc)
				}
			}
		}
	case 4:
		propValue = []byte{zzNondetByte("otherValue")}
	}
	proposalRoot, _ := zzHashDataRoot(propValue)
	pm := specqbft.Message{MsgType: specqbft.ProposalMsgType, Height: height, Round: round, Identifier: r.id, Root: proposalRoot}
	pm.RoundChangeJustification, _ = specqbft.MarshalJustifications(rcs)
	if where == 5 {
		pm.RoundChangeJustification = pm.RoundChangeJustification[:len(rcs)-1]
	}
	pm.PrepareJustification, _ = specqbft.MarshalJustifications(highestPrepares)
	if len(highestPrepares) > 0 && where == 6 {
		pm.PrepareJustification = pm.PrepareJustification[:len(highestPrepares)-1]
	}
	prop := zzHonest(leader, pm, propValue)
	if where == 3 {
		mutate(prop)
	}
	pre := r.snap()
	_, _, _, err := r.inst.ProcessMsg(r.lg, prop)
	post := r.snap()
	if err == nil {
		zzReach("accepted")
		if where == 0 {
			zzReach("accepted-unmutated")
		}
	} else {
		zzReach("rejected")
	}
	if where == 0 && !zzSymbolicFalse() {
		// (no assertion that the honest template is accepted here: that is C07/C10's claim)
	}
	if post.accepted != pre.accepted && post.accepted != nil {
		zzAssert(post.accepted == prop, "accepted-proposal-is-this-message")
		r.checkPValid(pre, prop)
		zzAssert(post.round == prop.Message.Round, "accepting-a-proposal-moves-to-its-round")
		if post.round != pre.round {
			zzAssert(post.nArmed == pre.nArmed+1 && r.tm.armed[post.nArmed-1] == post.round, "round-bump-arms-timer-for-the-new-round")
		}
	}
	if err != nil {
		zzAssert(post.accepted == pre.accepted && post.round == pre.round && len(r.net.msgs) == pre.nBroadcast, "rejected-proposal-changes-nothing")
	}
}

func zzSymbolicFalse() bool { return false }

// ---------------------------------------------------------------------------------------------
// C07(c): round-change progress at the next leader. For a round-change quorum sent by correct operators
// (shape 0: all unprepared; 1: one prepared at round 1; 2: two prepared on the same value at rounds 1 and 2;
// 3: two prepared on DIFFERENT values at rounds 1 and 2 - reachable with one Byzantine operator) there must
// be SOME delivery order after which the leader of the round proposes, and every other correct operator in
// that round accepts the proposal and prepares.
func ZZHarnessRCProgress() {
	n := int(zzParam("N"))
	round := specqbft.Round(zzParam("ROUND"))
	height := specqbft.Height(zzNondetRange("iheight", 0, uint64(n)))
	value := []byte{9}
	share0 := zzShareFor(n, zzCommitteeIDs[n][0])
	leader := zzLeader(share0, height, round)
	shape := zzChoose("shape", 4)
	if shape >= 2 && round < 3 {
		shape = 1
	}
	q := int(share0.Quorum)
	pv1, pv2 := []byte{5}, []byte{6}
	orders := [][]int{{0, 1, 2}, {0, 2, 1}, {1, 0, 2}, {1, 2, 0}, {2, 0, 1}, {2, 1, 0}}
	worked := 0
	for _, order := range orders {
		r := zzNewRig(n, leader, height, value)
		zzAssume(r.valOK)
		for r.inst.State.Round < round {
			zzAssume(r.inst.UponRoundTimeout(r.lg) == nil)
		}
		var senders []spectypes.OperatorID
		for _, c := range r.share.Committee {
			if c.OperatorID != leader && len(senders) < q {
				senders = append(senders, c.OperatorID)
			}
		}
		mkPrepares := func(rd specqbft.Round, root [32]byte) []*specqbft.SignedMessage {
			var ps []*specqbft.SignedMessage
			for k := 0; k < q; k++ {
				ps = append(ps, zzHonest(r.share.Committee[k].OperatorID, specqbft.Message{MsgType: specqbft.PrepareMsgType, Height: height, Round: rd, Identifier: r.id, Root: root}, nil))
			}
			return ps
		}
		var rcs []*specqbft.SignedMessage
		for k, snd := range senders {
			m := specqbft.Message{MsgType: specqbft.RoundChangeMsgType, Height: height, Round: round, Identifier: r.id}
			var fd []byte
			preparedAt, pv := specqbft.Round(0), pv1
			if shape >= 1 && k == 0 {
				preparedAt = 1
			}
			if shape >= 2 && k == 1 {
				preparedAt = 2
				if shape == 3 {
					pv = pv2
				}
			}
			if preparedAt != 0 {
				proot, _ := zzHashDataRoot(pv)
				m.Root, m.DataRound, fd = proot, preparedAt, pv
				j, _ := specqbft.MarshalJustifications(mkPrepares(preparedAt, proot))
				m.RoundChangeJustification = j
			}
			rcs = append(rcs, zzHonest(snd, m, fd))
		}
		before := len(r.net.msgs)
		for _, i := range order {
			if i < len(rcs) {
				_, _, _, err := r.inst.ProcessMsg(r.lg, rcs[i])
				zzAssert(err == nil, "leader-accepts-honest-roundchange")
			}
		}
		var prop *specqbft.SignedMessage
		for _, b := range r.net.msgs[before:] {
			if b != nil && b.Message.MsgType == specqbft.ProposalMsgType {
				prop = b
			}
		}
		if prop == nil {
			continue
		}
		// a correct follower that also moved to this round accepts it and prepares
		var follower spectypes.OperatorID
		for _, c := range r.share.Committee {
			if c.OperatorID != leader {
				follower = c.OperatorID
			}
		}
		f := zzNewRig(n, follower, height, value)
		f.valOK = true
		for f.inst.State.Round < round {
			zzAssume(f.inst.UponRoundTimeout(f.lg) == nil)
		}
		fb := len(f.net.msgs)
		_, _, _, err := f.inst.ProcessMsg(f.lg, zzCopyMsg(prop))
		if err == nil && len(f.net.msgs) == fb+1 && f.net.msgs[fb] != nil && f.net.msgs[fb].Message.MsgType == specqbft.PrepareMsgType {
			worked++
		}
	}
	if shape == 3 {
		zzReach("mixed-prepared-values")
	}
	zzAssert(worked >= 1, "some-delivery-order-lets-the-leader-propose-and-followers-prepare")
	zzReach("end")
}

// ZZHarnessRCAfterRoundChange (C07): progress must not stop after the first completed round change. The operator
// reached round 2 through a completed round change (it holds a quorum of round-change messages for its CURRENT
// round, its own one looped back); the proposal of round 2 never arrives. Then the others announce round 3:
//   - f+1 round-changes for round 3 pull the operator forward (round 3, own round-change for round 3 broadcast);
//   - when the operator leads round 3, a quorum of round-changes for round 3 makes it propose.
func ZZHarnessRCAfterRoundChange() {
	n := int(zzParam("N"))
	height := specqbft.Height(zzNondetRange("iheight", 0, uint64(n)))
	value := []byte{9}
	share0 := zzShareFor(n, zzCommitteeIDs[n][0])
	own := zzCommitteeIDs[n][zzChoose("own", n)]
	leads3 := zzLeader(share0, height, 3) == own
	r := zzNewRig(n, own, height, value)
	zzAssume(r.valOK)
	zzAssume(r.inst.UponRoundTimeout(r.lg) == nil)
	loop := func() {
		m := r.net.msgs[len(r.net.msgs)-1]
		if m != nil {
			_, _, _, _ = r.inst.ProcessMsg(r.lg, zzCopyMsg(m))
		}
	}
	loop()
	oth := r.others()
	q := int(r.share.Quorum)
	for k := 0; k < q-1; k++ {
		_, _, _, err := r.inst.ProcessMsg(r.lg, zzHonest(oth[k], r.msg(specqbft.RoundChangeMsgType, 2, [32]byte{}), nil))
		zzAssert(err == nil, "honest-roundchange-for-the-current-round-accepted")
	}
	zzAssume(r.inst.State.Round == 2)
	before := len(r.net.msgs)
	f := (n - 1) / 3
	for k := 0; k < len(oth); k++ {
		_, _, _, err := r.inst.ProcessMsg(r.lg, zzHonest(oth[k], r.msg(specqbft.RoundChangeMsgType, 3, [32]byte{}), nil))
		zzAssert(err == nil, "honest-roundchange-for-the-next-round-accepted")
		if k+1 == f+1 {
			zzReach("f+1")
			zzAssert(r.inst.State.Round == 3, "f+1-roundchanges-pull-the-operator-forward-after-a-completed-round-change")
			sent := false
			for _, b := range r.net.msgs[before:] {
				if b != nil && b.Message.MsgType == specqbft.RoundChangeMsgType && b.Message.Round == 3 {
					sent = true
				}
			}
			zzAssert(sent, "pulled-forward-operator-announces-the-new-round")
			loop()
		}
	}
	if leads3 {
		zzReach("leader-of-round-3")
		proposed := false
		for _, b := range r.net.msgs[before:] {
			if b != nil && b.Message.MsgType == specqbft.ProposalMsgType && b.Message.Round == 3 {
				proposed = true
			}
		}
		zzAssert(proposed, "leader-proposes-on-a-roundchange-quorum-after-a-completed-round-change")
	}
	zzReach("end")
}

// ZZHarnessCommitAfterEarlierPrepare (C07): an operator that reached a prepare quorum in round 1 (and committed)
// must still commit when a later round prepares: round 1 does not decide, the operator - leader of round 2 - times
// out, collects the round-change quorum (its own prepared round-change arriving last), re-proposes the locked value,
// and receives a prepare quorum for round 2: a commit for round 2 is broadcast.
func ZZHarnessCommitAfterEarlierPrepare() {
	n := int(zzParam("N"))
	height := specqbft.Height(zzNondetRange("iheight", 0, uint64(n)))
	value := []byte{9}
	share0 := zzShareFor(n, zzCommitteeIDs[n][0])
	own := zzLeader(share0, height, 2)
	r := zzNewRig(n, own, height, value)
	zzAssume(r.valOK)
	r.prefix(3, value)
	zzAssume(r.inst.State.LastPreparedRound == 1)
	zzAssume(r.inst.UponRoundTimeout(r.lg) == nil)
	ownRC := r.net.msgs[len(r.net.msgs)-1]
	zzAssume(ownRC != nil && ownRC.Message.MsgType == specqbft.RoundChangeMsgType)
	oth := r.others()
	q := int(r.share.Quorum)
	for k := 0; k < q-1; k++ {
		_, _, _, err := r.inst.ProcessMsg(r.lg, zzHonest(oth[k], r.msg(specqbft.RoundChangeMsgType, 2, [32]byte{}), nil))
		zzAssume(err == nil)
	}
	before := len(r.net.msgs)
	_, _, _, err := r.inst.ProcessMsg(r.lg, zzCopyMsg(ownRC))
	zzAssume(err == nil)
	var prop *specqbft.SignedMessage
	for _, b := range r.net.msgs[before:] {
		if b != nil && b.Message.MsgType == specqbft.ProposalMsgType && b.Message.Round == 2 {
			prop = b
		}
	}
	zzAssume(prop != nil) // (that the leader proposes here is the subject of rc-progress)
	_, _, _, err = r.inst.ProcessMsg(r.lg, zzCopyMsg(prop))
	zzAssume(err == nil && r.inst.State.ProposalAcceptedForCurrentRound != nil)
	zzReach("round-2-proposal-accepted")
	root, _ := zzHashDataRoot(value)
	before = len(r.net.msgs)
	for k := 0; k < q; k++ {
		_, _, _, perr := r.inst.ProcessMsg(r.lg, zzHonest(oth[k%len(oth)], r.msg(specqbft.PrepareMsgType, 2, root), nil))
		_ = perr
		if k == q-2 {
			// the own prepare comes back as well
			_, _, _, _ = r.inst.ProcessMsg(r.lg, zzHonest(own, r.msg(specqbft.PrepareMsgType, 2, root), nil))
		}
	}
	committed := false
	for _, b := range r.net.msgs[before:] {
		if b != nil && b.Message.MsgType == specqbft.CommitMsgType && b.Message.Round == 2 && b.Message.Root == root {
			committed = true
		}
	}
	zzAssert(committed, "prepare-quorum-in-a-later-round-leads-to-a-commit-also-after-an-earlier-prepare")
	zzAssert(r.inst.State.LastPreparedRound == 2, "later-prepare-quorum-refreshes-the-prepared-round")
	zzReach("end")
}
