package controller

// Controller harnesses: C02(a) decided certificates, C15 height monotonicity across restarts,
// C17(c) stale timeout events.

import (
	"errors"

	specqbft "github.com/bloxapp/ssv-spec/qbft"
	spectypes "github.com/bloxapp/ssv-spec/types"
	"go.uber.org/zap"

	"github.com/bloxapp/ssv/protocol/v2/qbft"
	"github.com/bloxapp/ssv/protocol/v2/qbft/instance"
	qbftstorage "github.com/bloxapp/ssv/protocol/v2/qbft/storage"
	"github.com/bloxapp/ssv/protocol/v2/types"
)

type zzTimer struct{ armed []specqbft.Round }

func (t *zzTimer) TimeoutForRound(h specqbft.Height, r specqbft.Round) { t.armed = append(t.armed, r) }

// zzStore: contract-only QBFTStore (a saved record is durable; history keyed by height).
type zzStore struct {
	highest     *qbftstorage.StoredInstance
	history     map[specqbft.Height]*qbftstorage.StoredInstance
	saves       int
	highestLog  []*qbftstorage.StoredInstance
	failHighest bool
}

func zzCloneStored(si *qbftstorage.StoredInstance) *qbftstorage.StoredInstance {
	st := *si.State
	return &qbftstorage.StoredInstance{State: &st, DecidedMessage: zzCopyMsg(si.DecidedMessage)}
}
func (s *zzStore) GetHighestInstance(identifier []byte) (*qbftstorage.StoredInstance, error) {
	if s.highest == nil {
		return nil, nil
	}
	return zzCloneStored(s.highest), nil
}
func (s *zzStore) GetInstancesInRange(identifier []byte, from, to specqbft.Height) ([]*qbftstorage.StoredInstance, error) {
	return nil, nil
}
func (s *zzStore) SaveInstance(i *qbftstorage.StoredInstance) error {
	s.saves++
	s.history[i.State.Height] = zzCloneStored(i)
	return nil
}
func (s *zzStore) SaveHighestInstance(i *qbftstorage.StoredInstance) error {
	s.saves++
	s.highest = zzCloneStored(i)
	s.highestLog = append(s.highestLog, s.highest)
	return nil
}
func (s *zzStore) SaveHighestAndHistoricalInstance(i *qbftstorage.StoredInstance) error {
	s.saves++
	s.highest = zzCloneStored(i)
	s.highestLog = append(s.highestLog, s.highest)
	s.history[i.State.Height] = zzCloneStored(i)
	return nil
}
func (s *zzStore) GetInstance(identifier []byte, height specqbft.Height) (*qbftstorage.StoredInstance, error) {
	if si := s.history[height]; si != nil {
		return zzCloneStored(si), nil
	}
	return nil, nil
}
func (s *zzStore) CleanAllInstances(logger *zap.Logger, msgID []byte) error { return nil }

type zzCRig struct {
	n     int
	share *spectypes.Share
	net   *zzNet
	tm    *zzTimer
	store *zzStore
	cfg   *qbft.Config
	c     *Controller
	id    []byte
	lg    *zap.Logger
	full  bool
}

func zzNewCRig(n int, own spectypes.OperatorID, full bool) *zzCRig {
	r := &zzCRig{n: n, share: zzShareFor(n, own), net: &zzNet{}, tm: &zzTimer{}, lg: zap.NewNop(), full: full,
		store: &zzStore{history: map[specqbft.Height]*qbftstorage.StoredInstance{}}}
	r.cfg = &qbft.Config{
		Signer:      zzSigner{},
		Domain:      spectypes.DomainType{0, 0, 3, 1},
		ValueCheckF: func(d []byte) error { return nil },
		ProposerF:   func(s *specqbft.State, rd specqbft.Round) spectypes.OperatorID { return specqbft.RoundRobinProposer(s, rd) },
		Network:     r.net, Timer: r.tm, Storage: r.store, SignatureVerification: true,
	}
	r.id = make([]byte, 56)
	r.id[0] = 7
	r.c = NewController(r.id, r.share, r.cfg, full)
	return r
}

// restart: a new controller on the surviving store, as Validator.Start does.
func (r *zzCRig) restart() {
	r.c = NewController(r.id, r.share, r.cfg, r.full)
	_, err := r.c.LoadHighestInstance(r.id)
	zzAssert(err == nil, "restart-load-succeeds")
}

// honest decided certificate for (height, value) signed by the first k committee members
func (r *zzCRig) decided(height specqbft.Height, round specqbft.Round, value []byte, k int) *specqbft.SignedMessage {
	root, _ := zzHashDataRoot(value)
	m := specqbft.Message{MsgType: specqbft.CommitMsgType, Height: height, Round: round, Identifier: r.id, Root: root}
	mr, _ := zzMessageRoot(&m)
	sm := &specqbft.SignedMessage{Message: m, FullData: value}
	sig := make([]byte, 96)
	sig[0] = 1
	for i := 0; i < k; i++ {
		id := r.share.Committee[i].OperatorID
		sm.Signers = append(sm.Signers, id)
		sig[1+i] = byte(id)
	}
	copy(sig[16:48], mr[:])
	sm.Signature = sig
	return sm
}

func zzHeightsOf(c *Controller) (decided []specqbft.Height, all []specqbft.Height) {
	for _, i := range c.StoredInstances {
		if i == nil {
			continue
		}
		all = append(all, i.State.Height)
		if i.State.Decided {
			decided = append(decided, i.State.Height)
		}
	}
	return
}

// zzCertOK: the C02 certificate predicate.
func (r *zzCRig) certOK(m *specqbft.SignedMessage, label string) {
	zzAssert(m.Message.MsgType == specqbft.CommitMsgType, label+"-is-commit")
	zzAssert(uint64(len(m.Signers)) >= r.share.Quorum, label+"-quorum-of-signers")
	for k, s := range m.Signers {
		zzAssert(s != 0 && zzInCommittee(r.share, s), label+"-signers-are-committee-members")
		for j := 0; j < k; j++ {
			zzAssert(m.Signers[j] != s, label+"-signers-distinct")
		}
	}
	zzAssert(zzSigValid(m), label+"-aggregate-signature-verifies-for-exactly-the-listed-signers")
	hr, _ := zzHashDataRoot(m.FullData)
	zzAssert(hr == m.Message.Root, label+"-value-hashes-to-root")
	zzAssert(string(m.Message.Identifier) == string(r.id), label+"-identifier")
}

// ZZHarnessCtrlMsg (C02a): one adversarial message to Controller.ProcessMsg from a chosen pre-state.
func ZZHarnessCtrlMsg() {
	n := int(zzParam("N"))
	own := zzCommitteeIDs[n][int(zzParam("OWN"))]
	full := zzNondetBool("fullNode")
	r := zzNewCRig(n, own, full)
	h0 := specqbft.Height(zzNondetRange("h0", 0, 3))
	switch zzChoose("prefix", 4) {
	case 1: // a running instance
		zzAssume(r.c.StartNewInstance(r.lg, h0, []byte{9}) == nil)
	case 2: // a decided height learned from the network
		_, err := r.c.ProcessMsg(r.lg, r.decided(h0, 1, []byte{9}, int(r.share.Quorum)))
		zzAssume(err == nil)
	case 3: // running instance that accepted a proposal and holds quorum-1 commits
		zzAssume(r.c.StartNewInstance(r.lg, h0, []byte{9}) == nil)
		inst := r.c.StoredInstances.FindInstance(h0)
		root, _ := zzHashDataRoot([]byte{9})
		leader := r.share.Committee[(uint64(h0)%uint64(n))%uint64(n)].OperatorID
		if h0 == 0 {
			leader = r.share.Committee[0].OperatorID
		}
		pm := specqbft.Message{MsgType: specqbft.ProposalMsgType, Height: h0, Round: 1, Identifier: r.id, Root: root}
		_, _, _, err := inst.ProcessMsg(r.lg, zzHonest(leader, pm, []byte{9}))
		zzAssume(err == nil)
		cnt := 0
		for _, o := range r.share.Committee {
			if o.OperatorID == own || cnt >= int(r.share.Quorum)-1 {
				continue
			}
			cm := specqbft.Message{MsgType: specqbft.CommitMsgType, Height: h0, Round: 1, Identifier: r.id, Root: root}
			_, _, _, err := inst.ProcessMsg(r.lg, zzHonest(o.OperatorID, cm, nil))
			zzAssume(err == nil)
			cnt++
		}
	}
	preDecided, _ := zzHeightsOf(r.c)
	preSaves := r.store.saves
	preHeight := r.c.Height
	var handled []*specqbft.SignedMessage
	r.c.NewDecidedHandler = func(m *specqbft.SignedMessage) { handled = append(handled, m) }

	m := zzSymMsg(r.id)
	ret, err := r.c.ProcessMsg(r.lg, m)
	if err == nil {
		zzReach("accepted")
	} else {
		zzReach("rejected")
	}
	postDecided, _ := zzHeightsOf(r.c)
	newlyDecided := len(postDecided) != len(preDecided)
	if ret != nil {
		zzReach("decided-returned")
		r.certOK(ret, "returned-certificate")
	}
	if newlyDecided || r.store.saves != preSaves || len(handled) > 0 {
		zzReach("decision-recorded")
		zzAssert(err == nil, "no-decision-effect-on-rejected-message")
		// the certificate that caused it: the incoming decided message, or the local aggregate
		cert := m
		if ret != nil {
			cert = ret
		}
		r.certOK(cert, "deciding-certificate")
	}
	for _, si := range r.store.highestLog {
		r.certOK(si.DecidedMessage, "stored-highest-certificate")
		zzAssert(si.State.Decided, "stored-highest-is-decided")
	}
	if err != nil {
		zzAssert(r.c.Height == preHeight, "rejected-message-does-not-move-height")
	}
	zzAssert(r.c.Height >= preHeight, "controller-height-monotone")
}

// ZZHarnessCtrlHistory (C15): K operations from {start(h), decided(h, signer count), restart}; heights in 0..HMAX.
func ZZHarnessCtrlHistory() {
	n := int(zzParam("N"))
	k := int(zzParam("K"))
	hmax := zzParam("HMAX")
	own := zzCommitteeIDs[n][int(zzParam("OWN"))]
	full := zzNondetBool("fullNode")
	r := zzNewCRig(n, own, full)
	if full && zzNondetBool("historyHasDecided") {
		// an earlier life of this full node stored a decided instance in its history (not as highest)
		hS := specqbft.Height(zzNondetRange("hS", 1, hmax))
		dm := r.decided(hS, 1, []byte{9}, int(r.share.Quorum))
		st := &specqbft.State{Share: r.share, ID: r.id, Height: hS, Round: 1, Decided: true, DecidedValue: []byte{9},
			ProposeContainer: specqbft.NewMsgContainer(), PrepareContainer: specqbft.NewMsgContainer(),
			CommitContainer: specqbft.NewMsgContainer(), RoundChangeContainer: specqbft.NewMsgContainer()}
		st.CommitContainer.AddMsg(dm)
		r.store.history[hS] = &qbftstorage.StoredInstance{State: st, DecidedMessage: dm}
		zzReach("history-seeded")
	}
	maxStarted, anyStarted := specqbft.Height(0), false // since the last restart
	maxLearned, anyLearned := specqbft.Height(0), false // decided heights learned (ever, if saved as highest)
	var lastHighestH specqbft.Height
	lastHighestSigners := 0
	haveHighest := false
	for step := 0; step < k; step++ {
		op := zzChoose("op", 3)
		h := specqbft.Height(zzNondetRange("h", 0, hmax))
		switch op {
		case 0:
			// a duty start as the runner performs it: BaseRunner.ShouldProcessDuty's guard (mirrored here; the
			// real one is executed in the runner rig), then Controller.StartNewInstance
			if r.c.Height >= h && r.c.Height != 0 {
				zzReach("duty-refused-by-height-guard")
				break
			}
			err := r.c.StartNewInstance(r.lg, h, []byte{9})
			if err == nil {
				zzReach("started")
				if anyStarted {
					zzAssert(h > maxStarted, "start-only-above-highest-started")
				}
				if anyLearned {
					zzAssert(h > maxLearned, "start-only-above-highest-learned-decided")
				}
				if !anyStarted || h > maxStarted {
					maxStarted = h
				}
				anyStarted = true
			}
		case 1:
			ns := int(r.share.Quorum) + zzChoose("extraSigners", n-int(r.share.Quorum)+1)
			_, err := r.c.ProcessMsg(r.lg, r.decided(h, 1, []byte{9}, ns))
			if err == nil {
				zzReach("decided-accepted")
				zzAssert(r.c.Height >= h, "learned-decided-height-raises-controller-height")
				if !anyLearned || h > maxLearned {
					maxLearned = h
				}
				anyLearned = true
			}
		case 2:
			r.restart()
			zzReach("restarted")
			anyStarted = false
			if r.store.highest != nil {
				zzAssert(r.c.Height == r.store.highest.State.Height, "restart-resumes-at-stored-highest")
				// only what was stored as highest survives as "learned"
				maxLearned, anyLearned = r.store.highest.State.Height, true
			} else {
				anyLearned = false
			}
		}
		// stored highest record: only replaced by a higher height, or same height with more signers
		if r.store.highest != nil {
			hh := r.store.highest.State.Height
			ns := len(r.store.highest.DecidedMessage.Signers)
			if haveHighest {
				zzAssert(hh > lastHighestH || (hh == lastHighestH && ns >= lastHighestSigners), "stored-highest-monotone")
			}
			lastHighestH, lastHighestSigners, haveHighest = hh, ns, true
		}
		// a height is never held twice (a second instance for a height would be the height "run again"); the order
		// inside the container is an implementation detail and not asserted
		_, all := zzHeightsOf(r.c)
		for i := range all {
			for j := 0; j < i; j++ {
				zzAssert(all[i] != all[j], "no-height-held-twice")
			}
		}
	}
}

var zzTD *types.TimeoutData

// redirect target for (*types.EventMsg).GetTimeoutData
func zzGetTimeoutData(m *types.EventMsg) (*types.TimeoutData, error) {
	if zzTD == nil {
		return nil, errors.New("zz: undecodable")
	}
	c := *zzTD
	return &c, nil
}

// ZZHarnessCtrlTimeout (C17c): a timeout event for an earlier round, an unknown height or a decided
// instance changes nothing; a current one advances the round by exactly one.
func ZZHarnessCtrlTimeout() {
	n := int(zzParam("N"))
	own := zzCommitteeIDs[n][int(zzParam("OWN"))]
	r := zzNewCRig(n, own, false)
	h0 := specqbft.Height(zzNondetRange("h0", 0, 3))
	zzAssume(r.c.StartNewInstance(r.lg, h0, []byte{9}) == nil)
	inst := r.c.StoredInstances.FindInstance(h0)
	nTimeouts := zzChoose("priorTimeouts", 3)
	for i := 0; i < nTimeouts; i++ {
		zzAssume(inst.UponRoundTimeout(r.lg) == nil)
	}
	if zzNondetBool("decidedAlready") {
		_, err := r.c.ProcessMsg(r.lg, r.decided(h0, inst.State.Round, []byte{9}, int(r.share.Quorum)))
		zzAssume(err == nil)
	}
	preRound, preDecided := inst.State.Round, inst.State.Decided
	preB, preA := len(r.net.msgs), len(r.tm.armed)
	evH := specqbft.Height(zzNondetRange("evHeight", 0, 4))
	evR := specqbft.Round(zzNondetRange("evRound", 0, 6))
	zzTD = &types.TimeoutData{Height: evH, Round: evR} // identity codec for the JSON event payload
	err := r.c.OnTimeout(r.lg, types.EventMsg{Type: types.Timeout, Data: []byte{1}})
	stale := evH != h0 || evR < preRound || preDecided
	if stale {
		zzReach("stale")
		zzAssert(inst.State.Round == preRound, "stale-timeout-keeps-round")
		zzAssert(len(r.net.msgs) == preB, "stale-timeout-broadcasts-nothing")
		zzAssert(len(r.tm.armed) == preA, "stale-timeout-arms-nothing")
	} else {
		zzReach("current")
		zzAssert(err == nil, "current-timeout-processed")
		zzAssert(inst.State.Round == preRound+1, "current-timeout-advances-round-by-one")
		zzAssert(len(r.net.msgs) == preB+1 && len(r.tm.armed) == preA+1, "current-timeout-announces-and-rearms")
	}
	_ = errors.New
	_ = instance.CutoffRound
}
