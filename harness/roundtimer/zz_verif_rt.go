package roundtimer

// C17(a): RoundTimeout arithmetic for every role, symbolic height, round and clock.

import (
	"context"
	"sync"
	"time"

	"github.com/attestantio/go-eth2-client/spec/phase0"
	specqbft "github.com/bloxapp/ssv-spec/qbft"
	spectypes "github.com/bloxapp/ssv-spec/types"
)

type zzBN struct{}

func (zzBN) GetSlotStartTime(slot phase0.Slot) time.Time {
	return time.Unix(1_600_000_000+int64(slot)*12, 0)
}
func (zzBN) SlotDurationSec() time.Duration { return 12 * time.Second }

var zzRoles = []spectypes.BeaconRole{spectypes.BNRoleAttester, spectypes.BNRoleAggregator, spectypes.BNRoleProposer,
	spectypes.BNRoleSyncCommittee, spectypes.BNRoleSyncCommitteeContribution, spectypes.BNRoleValidatorRegistration, spectypes.BNRoleVoluntaryExit}

// reference: deadline offset from slot start = base(role) + sum_{i<=round} allowance(i)
func zzOffset(role spectypes.BeaconRole, round uint64) time.Duration {
	var base time.Duration
	switch role {
	case spectypes.BNRoleAttester, spectypes.BNRoleSyncCommittee:
		base = 4 * time.Second
	case spectypes.BNRoleAggregator, spectypes.BNRoleSyncCommitteeContribution:
		base = 8 * time.Second
	}
	if round <= 8 {
		return base + time.Duration(round)*2*time.Second
	}
	return base + 16*time.Second + time.Duration(round-8)*2*time.Minute
}

func zzTimer(role spectypes.BeaconRole) *RoundTimer {
	return &RoundTimer{mtx: &sync.RWMutex{}, role: role, beaconNetwork: zzBN{},
		timeoutOptions: TimeoutOptions{quickThreshold: QuickTimeoutThreshold, quick: QuickTimeout, slow: SlowTimeout}}
}

func ZZHarnessRoundTimeout() {
	role := zzRoles[zzChoose("role", len(zzRoles))]
	t := zzTimer(role)
	height := zzNondetRange("height", 0, 1<<22)
	round := zzNondetRange("round", 1, 20)
	before := time.Now()
	d := t.RoundTimeout(specqbft.Height(height), specqbft.Round(round))
	after := time.Now()
	zzReach("computed")
	switch role {
	case spectypes.BNRoleAttester, spectypes.BNRoleSyncCommittee, spectypes.BNRoleAggregator, spectypes.BNRoleSyncCommitteeContribution:
		deadline := time.Unix(1_600_000_000+int64(height)*12, 0).Add(zzOffset(role, round))
		// the clock was read once inside RoundTimeout, between `before` and `after`
		zzAssert(d <= deadline.Sub(before), "timeout-not-longer-than-deadline-minus-earlier-clock")
		zzAssert(d >= deadline.Sub(after), "timeout-never-early: at least deadline minus later clock")
		// monotone in the round: the next round's deadline is later by exactly its allowance
		zzAssert(zzOffset(role, round+1) > zzOffset(role, round), "deadline-monotone-in-round")
	default:
		if round <= 8 {
			zzAssert(d == 2*time.Second, "proposer-quick-timeout")
		} else {
			zzAssert(d == 2*time.Minute, "proposer-slow-timeout")
		}
	}
}

// ZZHarnessRoundTimeoutConsecutive: deadline(r+1) - deadline(r) == allowance(r+1) as seen through two calls.
func ZZHarnessRoundTimeoutConsecutive() {
	role := zzRoles[zzChoose("role", 2)]
	t := zzTimer(role)
	height := zzNondetRange("height", 0, 1<<22)
	r1 := zzNondetRange("round", 1, 19)
	d1 := t.RoundTimeout(specqbft.Height(height), specqbft.Round(r1))
	d2 := t.RoundTimeout(specqbft.Height(height), specqbft.Round(r1+1))
	allowance := 2 * time.Second
	if r1+1 > 8 {
		allowance = 2 * time.Minute
	}
	// non-decreasing clock: the second reading is not earlier than the first
	zzAssert(d2-d1 <= allowance, "next-round-deadline-at-most-one-allowance-later")
	zzReach("computed")
}

// C17(b): arm / re-arm / cancel on the real RoundTimer under the engine's virtual clock and timers.
func ZZHarnessArming() {
	role := zzRoles[zzChoose("role", 2)]
	k := int(zzParam("K"))
	ctx, cancel := context.WithCancel(context.Background())
	height := zzNondetRange("height", 0, 1<<20)
	slotStart := time.Unix(1_600_000_000+int64(height)*12, 0)
	lastArmed := uint64(0)
	count := map[uint64]int{}
	cancelled := false
	var cancelAt time.Time
	ncalls := 0
	armedBeforeCancel := map[uint64]bool{}
	// the duty's slot has started (timers are armed when a duty starts); keeps the final flush finite
	zzAssume(!time.Now().Before(slotStart))
	t := New(ctx, zzBN{}, role, func(r specqbft.Round) {
		now := time.Now()
		ncalls++
		zzReach("callback")
		zzAssert(uint64(r) == lastArmed, "callback-only-for-most-recently-armed-round")
		count[uint64(r)]++
		zzAssert(count[uint64(r)] <= 1, "callback-at-most-once-per-arming")
		deadline := slotStart.Add(zzOffset(role, uint64(r)))
		zzAssert(!now.Before(deadline), "callback-not-before-deadline")
		if cancelled && armedBeforeCancel[uint64(r)] {
			zzAssert(!cancelAt.Before(deadline), "no-callback-when-cancelled-before-the-deadline")
		}
	})
	cancelStep := zzChoose("cancelStep", k+2) // k+1 = never
	round := uint64(0)
	for step := 0; step < k; step++ {
		if step == cancelStep {
			cancelAt = time.Now()
			cancelled = true
			cancel()
			zzYield() // goroutines woken by the cancellation run promptly
			zzReach("cancelled")
		}
		round += zzNondetRange("roundInc", 1, 2)
		lastArmed = round
		armedBeforeCancel[round] = !cancelled
		t.TimeoutForRound(specqbft.Height(height), specqbft.Round(round))
		// let an arbitrary amount of time pass before the next arming (re-arm before or after expiry)
		time.Sleep(time.Duration(zzNondetRange("gap", 0, 400)) * time.Second)
	}
	if cancelStep == k {
		cancelAt = time.Now()
		cancelled = true
		cancel()
		zzYield()
		zzReach("cancelled")
	}
	// flush: long after every deadline
	time.Sleep(3 * time.Hour)
	if !cancelled {
		zzAssert(count[lastArmed] == 1, "last-armed-round-fires-exactly-once-when-not-cancelled")
	}
	zzAssert(ncalls <= k, "no-more-callbacks-than-armings")
	zzReach("end")
}
