package roundtimer

// C17(a): RoundTimeout arithmetic for every role, symbolic height, round and clock.

import (
	"sync"
	"time"

	"github.com/attestantio/go-eth2-client/spec/phase0"
	specqbft "github.com/bloxapp/ssv-spec/qbft"
	spectypes "github.com/bloxapp/ssv-spec/types"
)

type zzBN struct{}

func (zzBN) GetSlotStartTime(slot phase0.Slot) time.Time {
	return time.Unix(1_600_000_000+int64(slot)*12, 0)
}
func (zzBN) SlotDurationSec() time.Duration { return 12 * time.Second }

var zzRoles = []spectypes.BeaconRole{spectypes.BNRoleAttester, spectypes.BNRoleAggregator, spectypes.BNRoleProposer,
	spectypes.BNRoleSyncCommittee, spectypes.BNRoleSyncCommitteeContribution, spectypes.BNRoleValidatorRegistration, spectypes.BNRoleVoluntaryExit}

// reference: deadline offset from slot start = base(role) + sum_{i<=round} allowance(i)
func zzOffset(role spectypes.BeaconRole, round uint64) time.Duration {
	var base time.Duration
	switch role {
	case spectypes.BNRoleAttester, spectypes.BNRoleSyncCommittee:
		base = 4 * time.Second
	case spectypes.BNRoleAggregator, spectypes.BNRoleSyncCommitteeContribution:
		base = 8 * time.Second
	}
	if round <= 8 {
		return base + time.Duration(round)*2*time.Second
	}
	return base + 16*time.Second + time.Duration(round-8)*2*time.Minute
}

func zzTimer(role spectypes.BeaconRole) *RoundTimer {
	return &RoundTimer{mtx: &sync.RWMutex{}, role: role, beaconNetwork: zzBN{},
		timeoutOptions: TimeoutOptions{quickThreshold: QuickTimeoutThreshold, quick: QuickTimeout, slow: SlowTimeout}}
}

func ZZHarnessRoundTimeout() {
	role := zzRoles[zzChoose("role", len(zzRoles))]
	t := zzTimer(role)
	height := zzNondetRange("height", 0, 1<<22)
	round := zzNondetRange("round", 1, 20)
	before := time.Now()
	d := t.RoundTimeout(specqbft.Height(height), specqbft.Round(round))
	after := time.Now()
	zzReach("computed")
	switch role {
	case spectypes.BNRoleAttester, spectypes.BNRoleSyncCommittee, spectypes.BNRoleAggregator, spectypes.BNRoleSyncCommitteeContribution:
		deadline := time.Unix(1_600_000_000+int64(height)*12, 0).Add(zzOffset(role, round))
		// the clock was read once inside RoundTimeout, between `before` and `after`
		zzAssert(d <= deadline.Sub(before), "timeout-not-longer-than-deadline-minus-earlier-clock")
		zzAssert(d >= deadline.Sub(after), "timeout-never-early: at least deadline minus later clock")
		// monotone in the round: the next round's deadline is later by exactly its allowance
		zzAssert(zzOffset(role, round+1) > zzOffset(role, round), "deadline-monotone-in-round")
	default:
		if round <= 8 {
			zzAssert(d == 2*time.Second, "proposer-quick-timeout")
		} else {
			zzAssert(d == 2*time.Minute, "proposer-slow-timeout")
		}
	}
}

// ZZHarnessRoundTimeoutConsecutive: deadline(r+1) - deadline(r) == allowance(r+1) as seen through two calls.
func ZZHarnessRoundTimeoutConsecutive() {
	role := zzRoles[zzChoose("role", 2)]
	t := zzTimer(role)
	height := zzNondetRange("height", 0, 1<<22)
	r1 := zzNondetRange("round", 1, 19)
	d1 := t.RoundTimeout(specqbft.Height(height), specqbft.Round(r1))
	d2 := t.RoundTimeout(specqbft.Height(height), specqbft.Round(r1+1))
	allowance := 2 * time.Second
	if r1+1 > 8 {
		allowance = 2 * time.Minute
	}
	// non-decreasing clock: the second reading is not earlier than the first
	zzAssert(d2-d1 <= allowance, "next-round-deadline-at-most-one-allowance-later")
	zzReach("computed")
}
