package eventhandler

// Registry rig (C11, C12): the real EventHandler.processBlockEvents / handlers / validation over the real
// operator/storage + registry/storage on a contract-only transactional key-value store; event parser,
// operator decrypter, key manager and task executor are fakes; JSON/gob record codecs are identity codecs;
// keccak is an injective stand-in on the strings in play; BLS is the engine's model.

import (
	"errors"
	"math/big"

	"github.com/attestantio/go-eth2-client/spec/phase0"
	spectypes "github.com/bloxapp/ssv-spec/types"
	ethabi "github.com/ethereum/go-ethereum/accounts/abi"
	ethcommon "github.com/ethereum/go-ethereum/common"
	ethtypes "github.com/ethereum/go-ethereum/core/types"
	ssz "github.com/ferranbt/fastssz"
	"github.com/herumi/bls-eth-go-binary/bls"
	"go.uber.org/zap"

	"github.com/bloxapp/eth2-key-manager/core"
	"github.com/bloxapp/ssv/eth/contract"
	"github.com/bloxapp/ssv/eth/executionclient"
	qbftstorage "github.com/bloxapp/ssv/ibft/storage"
	"github.com/bloxapp/ssv/networkconfig"
	operatordatastore "github.com/bloxapp/ssv/operator/datastore"
	nodestorage "github.com/bloxapp/ssv/operator/storage"
	ssvtypes "github.com/bloxapp/ssv/protocol/v2/types"
	registrystorage "github.com/bloxapp/ssv/registry/storage"
)

// ------------------------------------------------------------------ fakes

// key manager: wallet accounts and slashing records live outside the block transaction
type zzKM struct {
	db       *zzDB
	accounts map[string]bool // share public key (hex) -> present
	bumps    map[string]int
}

func (k *zzKM) SignBeaconObject(obj ssz.HashRoot, domain phase0.Domain, pk []byte, domainType phase0.DomainType) (spectypes.Signature, [32]byte, error) {
	return nil, [32]byte{}, nil
}
func (k *zzKM) IsAttestationSlashable(pk []byte, data *phase0.AttestationData) error { return nil }
func (k *zzKM) IsBeaconBlockSlashable(pk []byte, slot phase0.Slot) error              { return nil }
func (k *zzKM) SignRoot(data spectypes.Root, sigType spectypes.SignatureType, pk []byte) (spectypes.Signature, error) {
	return nil, nil
}
func (k *zzKM) AddShare(shareKey *bls.SecretKey) error {
	if err := k.db.effect(); err != nil {
		return err
	}
	id := shareKey.GetPublicKey().SerializeToHexStr()
	if !k.accounts[id] {
		k.bumps[id]++
		k.accounts[id] = true
	}
	return nil
}
func (k *zzKM) RemoveShare(pubKey string) error {
	if err := k.db.effect(); err != nil {
		return err
	}
	delete(k.accounts, pubKey)
	return nil
}
func (k *zzKM) ListAccounts() ([]core.ValidatorAccount, error) { return nil, nil }
func (k *zzKM) RetrieveHighestAttestation(pubKey []byte) (*phase0.AttestationData, bool, error) {
	return nil, false, nil
}
func (k *zzKM) RetrieveHighestProposal(pubKey []byte) (phase0.Slot, bool, error) { return 0, false, nil }
func (k *zzKM) BumpSlashingProtection(pubKey []byte) error {
	if err := k.db.effect(); err != nil {
		return err
	}
	k.bumps[string(pubKey)]++
	return nil
}

type zzDecrypter struct{ ok bool }

func (d *zzDecrypter) Decrypt(data []byte) ([]byte, error) {
	if !d.ok || len(data) == 0 || data[0] == 0xEE {
		return nil, errors.New("zz: cannot decrypt")
	}
	// the "ciphertext" carries the share key id in its first byte; plaintext = hex of the secret key
	const hexd = "0123456789abcdef"
	return []byte{hexd[data[0]>>4], hexd[data[0]&15]}, nil
}

// parser: topic byte 0 = event kind, topic byte 1 = index into the event table
type zzEvent struct {
	kind int
	va   *contract.ContractValidatorAdded
	vr   *contract.ContractValidatorRemoved
	oa   *contract.ContractOperatorAdded
	cl   *contract.ContractClusterLiquidated
	cr   *contract.ContractClusterReactivated
	fr   *contract.ContractFeeRecipientAddressUpdated
	or   *contract.ContractOperatorRemoved
	ve   *contract.ContractValidatorExited
}

type zzParser struct{ events []zzEvent }

var zzFirstGenerated int // len(parser.events) when the symbolic events start

var zzNames = []string{OperatorAdded, OperatorRemoved, ValidatorAdded, ValidatorRemoved, ClusterLiquidated, ClusterReactivated, FeeRecipientAddressUpdated, ValidatorExited}

func (p *zzParser) ev(l ethtypes.Log) *zzEvent { return &p.events[int(l.Topics[0][1])] }
func (p *zzParser) EventByID(topic ethcommon.Hash) (*ethabi.Event, error) {
	k := int(topic[0])
	if k >= len(zzNames) {
		return nil, errors.New("zz: unknown event")
	}
	return &ethabi.Event{Name: zzNames[k]}, nil
}
func (p *zzParser) ParseOperatorAdded(l ethtypes.Log) (*contract.ContractOperatorAdded, error) {
	return p.ev(l).oa, nil
}
func (p *zzParser) ParseOperatorRemoved(l ethtypes.Log) (*contract.ContractOperatorRemoved, error) {
	if p.ev(l).or == nil {
		return nil, errors.New("zz: not generated")
	}
	return p.ev(l).or, nil
}
func (p *zzParser) ParseValidatorAdded(l ethtypes.Log) (*contract.ContractValidatorAdded, error) {
	return p.ev(l).va, nil
}
func (p *zzParser) ParseValidatorRemoved(l ethtypes.Log) (*contract.ContractValidatorRemoved, error) {
	return p.ev(l).vr, nil
}
func (p *zzParser) ParseClusterLiquidated(l ethtypes.Log) (*contract.ContractClusterLiquidated, error) {
	return p.ev(l).cl, nil
}
func (p *zzParser) ParseClusterReactivated(l ethtypes.Log) (*contract.ContractClusterReactivated, error) {
	return p.ev(l).cr, nil
}
func (p *zzParser) ParseFeeRecipientAddressUpdated(l ethtypes.Log) (*contract.ContractFeeRecipientAddressUpdated, error) {
	return p.ev(l).fr, nil
}
func (p *zzParser) ParseValidatorExited(l ethtypes.Log) (*contract.ContractValidatorExited, error) {
	if p.ev(l).ve == nil {
		return nil, errors.New("zz: not generated")
	}
	return p.ev(l).ve, nil
}

// ------------------------------------------------------------------ redirect targets

// crypto.Keccak256 on "0x<40 hex>:<decimal nonce>" and on cluster-id preimages: injective stand-in
func zzKeccak256(data ...[]byte) []byte {
	out := make([]byte, 32)
	n := 0
	for _, d := range data {
		for _, b := range d {
			out[n%32] = out[n%32]*31 + b
			n++
		}
	}
	out[31] = byte(n)
	return out
}

// (common.Address).String without the keccak checksum
func zzAddressString(a ethcommon.Address) string {
	const hexd = "0123456789abcdef"
	s := make([]byte, 0, 42)
	s = append(s, '0', 'x')
	for _, b := range a {
		s = append(s, hexd[b>>4], hexd[b&15])
	}
	return string(s)
}

func zzDeserializeBLSPublicKey(b []byte) (bls.PublicKey, error) {
	pk := bls.PublicKey{}
	err := pk.Deserialize(b)
	return pk, err
}

// identity codec for SSVShare (gob)
var zzShareStore []*ssvtypes.SSVShare

func zzShareEncode(s *ssvtypes.SSVShare) ([]byte, error) {
	c := *s
	c.Committee = append([]*spectypes.Operator{}, s.Committee...)
	zzShareStore = append(zzShareStore, &c)
	return []byte{0x5A, byte(len(zzShareStore))}, nil
}
func zzShareDecode(s *ssvtypes.SSVShare, data []byte) error {
	if len(data) != 2 || data[0] != 0x5A || data[1] == 0 || int(data[1]) > len(zzShareStore) {
		return errors.New("zz: undecodable share")
	}
	*s = *zzShareStore[data[1]-1]
	return nil
}

func zzSetHexString(sk *bls.SecretKey, s string) error {
	// plaintext is the 2-digit hex of the key id
	if len(s) != 2 {
		return errors.New("zz: bad key")
	}
	v := byte(0)
	for _, c := range []byte(s) {
		switch {
		case c >= '0' && c <= '9':
			v = v<<4 | (c - '0')
		case c >= 'a' && c <= 'f':
			v = v<<4 | (c - 'a' + 10)
		default:
			return errors.New("zz: bad key")
		}
	}
	b := make([]byte, 32)
	b[0] = v
	return sk.Deserialize(b)
}

// ------------------------------------------------------------------ rig + reference model

var (
	zzOwnerA = ethcommon.Address{0xA1}
	zzOwnerB = ethcommon.Address{0xB2}
	zzRecipX = ethcommon.Address{0x11}
	zzRecipY = ethcommon.Address{0x22}
)

const zzOwnID = 2

func zzValidatorPK(i int) []byte {
	pk := make([]byte, 48)
	pk[0] = byte(0x70 + i)
	return pk
}
func zzSharePK(op uint64, v int) []byte {
	pk := make([]byte, 48)
	pk[0] = byte(0x10*v + int(op))
	return pk
}

type zzRefShare struct {
	owner      ethcommon.Address
	ids        []uint64
	liquidated bool
	mine       bool
}

type zzRef struct {
	operators map[uint64]bool
	shares    map[string]*zzRefShare // validator pk (string) -> share
	attempts  map[ethcommon.Address]int
	hasRecord map[ethcommon.Address]bool
	recipient map[ethcommon.Address]ethcommon.Address
	lastBlock uint64
	accounts  map[string]bool
}

func zzNewRef() *zzRef {
	return &zzRef{operators: map[uint64]bool{}, shares: map[string]*zzRefShare{}, attempts: map[ethcommon.Address]int{},
		hasRecord: map[ethcommon.Address]bool{}, recipient: map[ethcommon.Address]ethcommon.Address{}, accounts: map[string]bool{}}
}

type zzNode struct {
	db     *zzDB
	km     *zzKM
	store  nodestorage.Storage
	eh     *EventHandler
	parser *zzParser
	dec    *zzDecrypter
}

func zzBoot(db *zzDB, km *zzKM, parser *zzParser, dec *zzDecrypter) *zzNode {
	st, err := nodestorage.NewNodeStorage(zap.NewNop(), db)
	zzAssert(err == nil, "node-storage-opens")
	ods := operatordatastore.New(&registrystorage.OperatorData{ID: zzOwnID, PublicKey: []byte("opkey2")})
	eh, _ := New(st, parser, nil, networkconfig.NetworkConfig{Domain: spectypes.DomainType{0, 0, 3, 1}}, ods, dec, km, nil, qbftstorage.NewStores())
	return &zzNode{db: db, km: km, store: st, eh: eh, parser: parser, dec: dec}
}

// zzSameIDs: the same operators, in any order (a cluster is identified by the sorted operator list)
func zzSameIDs(a, b []uint64) bool {
	if len(a) != len(b) {
		return false
	}
	for _, x := range a {
		na, nb := 0, 0
		for _, y := range a {
			if y == x {
				na++
			}
		}
		for _, y := range b {
			if y == x {
				nb++
			}
		}
		if na != nb {
			return false
		}
	}
	return true
}

var zzIDLists = [][]uint64{
	{1, 2, 3, 4}, // own operator inside
	{1, 3, 4, 5}, // own operator outside
	{1, 2, 3},    // not 3f+1
	{1, 2, 2, 4}, // duplicate
	{1, 2, 3, 9}, // unknown operator
	{2, 1, 4, 3}, // valid, own operator inside, NOT in ascending order (share data is positional)
}

// operator sets named by cluster events: the two registered clusters and a superset of both (a different cluster:
// an event for it must not touch the validators of the smaller ones)
var zzClusterLists = [][]uint64{
	{1, 2, 3, 4},
	{1, 3, 4, 5},
	{1, 2, 3, 4, 5},
}

// zzGenEvent builds one symbolic registry event, appends it to the parser table and returns its log.
func zzGenEvent(p *zzParser, ref *zzRef, kindsAllowed int) ethtypes.Log {
	kind := 0
	if k0 := int(zzParam("KIND0")); k0 > 0 && len(p.events) == zzFirstGenerated {
		kind = k0 - 1 // the first generated event's kind is fixed by the run (splits the exploration across processes)
	} else {
		kind = zzChoose("evkind", kindsAllowed)
	}
	owner := zzOwnerA
	if zzNondetBool("ownerB") {
		owner = zzOwnerB
	}
	vi := zzChoose("validator", 2)
	var ev zzEvent
	topicKind := byte(0)
	switch kind {
	case 0: // ValidatorAdded
		topicKind = 2
		// exactly one deviation from a well-formed registration (0 = none):
		//  1-4 other operator lists | 5 wrong shares length | 6 signed for a future nonce | 7 replayed nonce |
		//  8 signed for the other owner | 9 invalid signature | 10 own key undecryptable | 11 own key mismatching
		//  12 no deviation, but the (valid) operator list is not in ascending order
		mut := 0
		if ds := int(zzParam("DEVSET")); ds > 0 && len(p.events) == zzFirstGenerated {
			nd := 4
			if ds == 3 {
				nd = 5
			}
			mut = (ds-1)*4 + zzChoose("va-deviation", nd) // the run fixes which third of the deviations the first event uses
		} else {
			mut = zzChoose("va-deviation", 13)
		}
		ids := zzIDLists[0]
		if mut >= 1 && mut <= 4 {
			ids = zzIDLists[mut]
		}
		if mut == 12 {
			ids = zzIDLists[5]
		}
		n := len(ids)
		shares := make([]byte, 96+48*n+256*n)
		if mut == 5 {
			shares = shares[:len(shares)-1]
		}
		nonceUsed := ref.attempts[owner]
		switch mut {
		case 6:
			nonceUsed++
		case 7:
			if nonceUsed > 0 {
				nonceUsed--
			} else {
				nonceUsed = 7
			}
		}
		sigOwner := owner
		if mut == 8 {
			sigOwner = zzOwnerB
			if owner == zzOwnerB {
				sigOwner = zzOwnerA
			}
		}
		h := zzKeccak256([]byte(zzAddressString(sigOwner) + ":" + zzItoa(nonceUsed)))
		sig := make([]byte, 96)
		sig[0] = 1
		if mut == 9 {
			sig[0] = zzNondetByte("sigflag")
			zzAssume(sig[0] != 1)
		}
		sig[1] = zzValidatorPK(vi)[0]
		copy(sig[16:48], h)
		copy(shares[:96], sig)
		for i, op := range ids {
			if 96+48*(i+1) <= len(shares) {
				copy(shares[96+48*i:], zzSharePK(op, vi))
			}
			off := 96 + 48*n + 256*i
			if off < len(shares) {
				shares[off] = zzSharePK(op, vi)[0] // ciphertext names the key
				if op == zzOwnID && mut == 10 {
					shares[off] = 0xEE // undecryptable
				}
				if op == zzOwnID && mut == 11 {
					shares[off] ^= 0x80 // decrypts to a key that does not match the public share
				}
			}
		}
		ev.va = &contract.ContractValidatorAdded{Owner: owner, OperatorIds: append([]uint64{}, ids...), PublicKey: zzValidatorPK(vi), Shares: shares}
	case 1: // ValidatorRemoved
		topicKind = 3
		ev.vr = &contract.ContractValidatorRemoved{Owner: owner, OperatorIds: zzIDLists[0], PublicKey: zzValidatorPK(vi)}
	case 2: // FeeRecipientAddressUpdated
		topicKind = 6
		rc := zzRecipX
		if zzNondetBool("recipY") {
			rc = zzRecipY
		}
		ev.fr = &contract.ContractFeeRecipientAddressUpdated{Owner: owner, RecipientAddress: rc}
	case 3: // ClusterLiquidated
		topicKind = 4
		ev.cl = &contract.ContractClusterLiquidated{Owner: owner, OperatorIds: zzClusterLists[zzChoose("clusterids", 3)]}
	case 4: // ClusterReactivated
		topicKind = 5
		ev.cr = &contract.ContractClusterReactivated{Owner: owner, OperatorIds: zzClusterLists[zzChoose("clusterids", 3)]}
	case 5: // unknown event
		topicKind = 0x77
	case 6: // OperatorAdded: an id already registered, or a new one (9); with a fresh key or with the own operator's key
		topicKind = 0
		id := uint64(3)
		if zzNondetBool("newOperator") {
			id = 9
		}
		pk := []byte{'o', 'p', 'k', 'e', 'y', byte('0' + id)}
		if zzNondetBool("ownOperatorKey") {
			pk = []byte{'o', 'p', 'k', 'e', 'y', byte('0' + zzOwnID)}
		}
		ev.oa = &contract.ContractOperatorAdded{OperatorId: id, Owner: owner, PublicKey: pk}
	case 7: // OperatorRemoved (of a registered or an unknown operator): operators are never deleted
		topicKind = 1
		id := uint64(3)
		if zzNondetBool("unknownOperator") {
			id = 9
		}
		ev.or = &contract.ContractOperatorRemoved{OperatorId: id}
	case 8: // ValidatorExited: no registry state changes
		topicKind = 7
		ev.ve = &contract.ContractValidatorExited{Owner: owner, OperatorIds: zzIDLists[0], PublicKey: zzValidatorPK(vi)}
	}
	ev.kind = kind
	p.events = append(p.events, ev)
	var topic ethcommon.Hash
	topic[0], topic[1] = topicKind, byte(len(p.events)-1)
	return ethtypes.Log{Topics: []ethcommon.Hash{topic}}
}

func zzItoa(n int) string {
	if n == 0 {
		return "0"
	}
	s := ""
	for n > 0 {
		s = string(rune('0'+n%10)) + s
		n /= 10
	}
	return s
}

// refApply: the registration rules, written from the property text.
func (r *zzRef) apply(ev *zzEvent) {
	switch ev.kind {
	case 0:
		e := ev.va
		nonce := r.attempts[e.Owner]
		r.attempts[e.Owner] = nonce + 1 // every add attempt counts, valid or not
		if !r.hasRecord[e.Owner] {
			r.hasRecord[e.Owner] = true
			r.recipient[e.Owner] = e.Owner
		}
		n := len(e.OperatorIds)
		if n != 4 && n != 7 && n != 10 && n != 13 {
			return
		}
		seen := map[uint64]bool{}
		for _, id := range e.OperatorIds {
			if seen[id] || !r.operators[id] {
				return
			}
			seen[id] = true
		}
		if len(e.Shares) != 96+48*n+256*n {
			return
		}
		sig := e.Shares[:96]
		h := zzKeccak256([]byte(zzAddressString(e.Owner) + ":" + zzItoa(nonce)))
		if sig[0] != 1 || sig[1] != e.PublicKey[0] {
			return
		}
		for i := 0; i < 32; i++ {
			if sig[16+i] != h[i] {
				return
			}
		}
		if _, exists := r.shares[string(e.PublicKey)]; exists {
			return // (same owner: nothing changes; other owner: malformed)
		}
		mine := seen[zzOwnID]
		if mine {
			for i, id := range e.OperatorIds {
				if id == zzOwnID {
					ct := e.Shares[96+48*n+256*i]
					if ct == 0xEE || ct != e.Shares[96+48*i] {
						return // undecryptable, or key does not match the public share
					}
					r.accounts[zzHex(e.Shares[96+48*i:96+48*(i+1)])] = true
				}
			}
		}
		r.shares[string(e.PublicKey)] = &zzRefShare{owner: e.Owner, ids: e.OperatorIds, mine: mine}
	case 1:
		e := ev.vr
		s := r.shares[string(e.PublicKey)]
		if s == nil || s.owner != e.Owner {
			return
		}
		delete(r.shares, string(e.PublicKey))
		if s.mine {
			delete(r.accounts, zzHex(zzSharePK(zzOwnID, int(e.PublicKey[0])-0x70)))
		}
	case 6:
		e := ev.oa
		own := []byte{'o', 'p', 'k', 'e', 'y', byte('0' + zzOwnID)}
		if string(e.PublicKey) == string(own) && e.OperatorId != zzOwnID {
			return // the own operator's key under another id: malformed
		}
		r.operators[e.OperatorId] = true // (an existing id keeps its data)
	case 2:
		e := ev.fr
		r.hasRecord[e.Owner] = true
		r.recipient[e.Owner] = e.RecipientAddress
	case 3, 4:
		owner, ids := ethcommon.Address{}, []uint64(nil)
		if ev.kind == 3 {
			owner, ids = ev.cl.Owner, ev.cl.OperatorIds
		} else {
			owner, ids = ev.cr.Owner, ev.cr.OperatorIds
		}
		for _, s := range r.shares {
			if s.owner == owner && zzSameIDs(s.ids, ids) && s.mine {
				s.liquidated = ev.kind == 3
			}
		}
	}
}

func zzHex(b []byte) string {
	const hexd = "0123456789abcdef"
	s := make([]byte, 0, 2*len(b))
	for _, x := range b {
		s = append(s, hexd[x>>4], hexd[x&15])
	}
	return string(s)
}

// zzCompare: persisted + in-memory state of the node against the reference model.
func zzCompare(nd *zzNode, ref *zzRef, label string) {
	for vi := 0; vi < 2; vi++ {
		pk := zzValidatorPK(vi)
		got := nd.store.Shares().Get(nil, pk)
		want := ref.shares[string(pk)]
		zzAssert((got != nil) == (want != nil), label+"-share-presence-matches-rules")
		if got != nil && want != nil {
			zzAssert(got.OwnerAddress == want.owner, label+"-share-owner")
			zzAssert(got.Liquidated == want.liquidated, label+"-share-liquidation-flag")
			zzAssert(got.BelongsToOperator(zzOwnID) == want.mine, label+"-share-membership")
			ids := []uint64{}
			for _, o := range got.Committee {
				ids = append(ids, o.OperatorID)
			}
			zzAssert(zzSameIDs(ids, want.ids), label+"-share-committee")
			for _, o := range got.Committee {
				// the share data of the event is positional: every committee member keeps the public share that came
				// at its own position
				zzAssert(string(o.PubKey) == string(zzSharePK(o.OperatorID, vi)), label+"-share-committee-member-has-its-own-public-share")
			}
		}
	}
	for _, owner := range []ethcommon.Address{zzOwnerA, zzOwnerB} {
		nonce, err := nd.store.GetNextNonce(nil, owner)
		zzAssert(err == nil && int(nonce) == ref.attempts[owner], label+"-nonce-counts-every-add-attempt-once")
		rd, found, err := nd.store.GetRecipientData(nil, owner)
		zzAssert(err == nil && found == ref.hasRecord[owner], label+"-recipient-record-presence")
		if found && rd != nil && ref.hasRecord[owner] {
			want := ref.recipient[owner]
			zzAssert(ethcommon.Address(rd.FeeRecipient) == want, label+"-fee-recipient")
		}
	}
	for _, id := range []uint64{3, 9} {
		od, found, err := nd.store.GetOperatorData(nil, id)
		zzAssert(err == nil && found == ref.operators[id], label+"-operator-presence")
		if found && od != nil {
			zzAssert(od.ID == id, label+"-operator-id")
			if id == 3 {
				zzAssert(string(od.PublicKey) == "opkey3" && od.OwnerAddress == zzOwnerA, label+"-registered-operator-keeps-its-data")
			}
		}
	}
	lb, found, err := nd.store.GetLastProcessedBlock(nil)
	zzAssert(err == nil, label+"-last-block-readable")
	if ref.lastBlock == 0 {
		zzAssert(!found || lb.Uint64() == 0, label+"-last-processed-block")
	} else {
		zzAssert(found && lb.Uint64() == ref.lastBlock, label+"-last-processed-block")
	}
}

// zzSetup: node with operators 1..5 registered (block 1) and, optionally, validator 0 of owner A already
// registered with the own operator in its committee (block 2).
func zzSetup(preShare bool) (*zzNode, *zzRef, uint64) {
	db := &zzDB{data: map[string][]byte{}}
	km := &zzKM{db: db, accounts: map[string]bool{}, bumps: map[string]int{}}
	parser := &zzParser{}
	nd := zzBoot(db, km, parser, &zzDecrypter{ok: true})
	ref := zzNewRef()
	var logs []ethtypes.Log
	for id := uint64(1); id <= 5; id++ {
		parser.events = append(parser.events, zzEvent{kind: 100, oa: &contract.ContractOperatorAdded{OperatorId: id, Owner: zzOwnerA, PublicKey: []byte{'o', 'p', 'k', 'e', 'y', byte('0' + id)}}})
		var t ethcommon.Hash
		t[0], t[1] = 0, byte(len(parser.events)-1)
		logs = append(logs, ethtypes.Log{Topics: []ethcommon.Hash{t}})
		ref.operators[id] = true
	}
	_, err := nd.eh.processBlockEvents(executionclient.BlockLogs{BlockNumber: 1, Logs: logs})
	zzAssume(err == nil)
	ref.lastBlock = 1
	block := uint64(1)
	if preShare {
		ids := zzIDLists[0]
		n := len(ids)
		shares := make([]byte, 96+48*n+256*n)
		h := zzKeccak256([]byte(zzAddressString(zzOwnerA) + ":0"))
		shares[0], shares[1] = 1, zzValidatorPK(0)[0]
		copy(shares[16:48], h)
		for i, op := range ids {
			copy(shares[96+48*i:], zzSharePK(op, 0))
			shares[96+48*n+256*i] = zzSharePK(op, 0)[0]
		}
		ev := zzEvent{kind: 0, va: &contract.ContractValidatorAdded{Owner: zzOwnerA, OperatorIds: append([]uint64{}, ids...), PublicKey: zzValidatorPK(0), Shares: shares}}
		parser.events = append(parser.events, ev)
		var t ethcommon.Hash
		t[0], t[1] = 2, byte(len(parser.events)-1)
		_, err := nd.eh.processBlockEvents(executionclient.BlockLogs{BlockNumber: 2, Logs: []ethtypes.Log{t2l(t)}})
		zzAssume(err == nil)
		ref.apply(&ev)
		ref.lastBlock = 2
		block = 2
	}
	return nd, ref, block
}

func t2l(t ethcommon.Hash) ethtypes.Log { return ethtypes.Log{Topics: []ethcommon.Hash{t}} }

// ZZHarnessRegistry (C11): K symbolic events, batched into blocks in every possible way; after every block
// the node's state equals the reference model; at the end a restart (fresh storages on the same database)
// reproduces it.
func ZZHarnessRegistry() {
	k := int(zzParam("K"))
	nd, ref, block := zzSetup(zzParam("PRE") == 1)
	zzCompare(nd, ref, "setup")
	zzFirstGenerated = len(nd.parser.events)
	var pending []ethtypes.Log
	var pendingEv []int
	for i := 0; i < k; i++ {
		l := zzGenEvent(nd.parser, ref, int(zzParam("KINDS")))
		pending = append(pending, l)
		pendingEv = append(pendingEv, len(nd.parser.events)-1)
		// the reference applies events one by one (batching must not matter)
		ref.apply(&nd.parser.events[len(nd.parser.events)-1])
		if i == k-1 || zzNondetBool("closeBlock") {
			block++
			_, err := nd.eh.processBlockEvents(executionclient.BlockLogs{BlockNumber: block, Logs: pending})
			zzAssert(err == nil, "block-processing-succeeds-without-faults")
			ref.lastBlock = block
			pending, pendingEv = nil, nil
			zzCompare(nd, ref, "after-block")
		}
	}
	// a block that is not newer than the last processed one is refused without effect
	_, err := nd.eh.processBlockEvents(executionclient.BlockLogs{BlockNumber: block - uint64(zzChoose("older", 2)), Logs: nil})
	zzAssert(errors.Is(err, ErrInferiorBlock), "inferior-block-refused")
	zzCompare(nd, ref, "after-inferior-block")
	// restart
	nd2 := zzBoot(nd.db, nd.km, nd.parser, nd.dec)
	zzCompare(nd2, ref, "after-restart")
	zzReach("end")
}

// ZZHarnessCrash (C12): one block of K symbolic events; the F-th side-effecting call (database set / delete /
// commit, key-manager add / remove / bump) fails - either returning an error or "crashing" the process;
// then restart on the surviving database and key manager, resume from the recorded last processed block and
// re-deliver the block: the final state equals the uninterrupted run.
func ZZHarnessCrash() {
	k := int(zzParam("K"))
	nd, ref, block := zzSetup(zzParam("PRE") == 1)
	var logs []ethtypes.Log
	zzFirstGenerated = len(nd.parser.events)
	for i := 0; i < k; i++ {
		logs = append(logs, zzGenEvent(nd.parser, ref, int(zzParam("KINDS"))))
		ref.apply(&nd.parser.events[len(nd.parser.events)-1])
	}
	block++
	ref.lastBlock = block
	base := nd.db.effects
	nd.db.failAt = base + 1 + zzChoose("faultAt", int(zzParam("FMAX")))
	nd.db.crash = zzNondetBool("crash")
	interrupted := false
	func() {
		defer func() {
			if r := recover(); r != nil {
				interrupted = true
				zzReach("crashed")
			}
		}()
		_, err := nd.eh.processBlockEvents(executionclient.BlockLogs{BlockNumber: block, Logs: logs})
		if err != nil {
			interrupted = true
			zzReach("failed-with-error")
		}
	}()
	nd.db.failAt = 0
	// restart on what survived
	nd2 := zzBoot(nd.db, nd.km, nd.parser, nd.dec)
	lb, found, err := nd2.store.GetLastProcessedBlock(nil)
	zzAssert(err == nil, "last-block-readable-after-restart")
	last := uint64(0)
	if found {
		last = lb.Uint64()
	}
	if interrupted {
		zzAssert(last == block-1 || last == block, "marker-is-before-or-after-the-block-never-in-between")
	}
	if last < block {
		zzReach("redelivered")
		_, err := nd2.eh.processBlockEvents(executionclient.BlockLogs{BlockNumber: block, Logs: logs})
		zzAssert(err == nil, "redelivered-block-processes")
	} else {
		_, err := nd2.eh.processBlockEvents(executionclient.BlockLogs{BlockNumber: block, Logs: logs})
		zzAssert(errors.Is(err, ErrInferiorBlock), "already-processed-block-refused")
	}
	zzCompare(nd2, ref, "after-recovery")
	// key shares held by the key manager equal those of the uninterrupted run
	for vi := 0; vi < 2; vi++ {
		id := zzHex(zzSharePK(zzOwnID, vi))
		want := false
		if s := ref.shares[string(zzValidatorPK(vi))]; s != nil && s.mine {
			want = true
		}
		zzAssert(nd.km.accounts[id] == want, "key-shares-equal-the-uninterrupted-run")
	}
	zzReach("end")
	_ = big.NewInt
}
