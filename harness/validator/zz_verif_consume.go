package validator

// C14 (consumer side): the real Validator.HandleMessage / ConsumeQueue loop over the real queue, with a recording
// handler and a runner whose state the harness controls. Every message pushed is handed to the handler exactly once or
// is still queued; what is handed over respects the hold-back rules (idle: only duty-start events; no proposal
// accepted for the current round: no prepare / commit of the current height and round); nothing admissible is left
// behind when the consumer goes to sleep.
//
// C15 (restart): the real Validator.Start with a stored highest decided instance and a duty-start event already
// queued: whatever the order in which the goroutines run while the store is being read, no duty at or below the
// stored height passes the runner's guard.

import (
	"context"
	"encoding/json"
	"sync"

	"github.com/attestantio/go-eth2-client/spec/phase0"
	specqbft "github.com/bloxapp/ssv-spec/qbft"
	spectypes "github.com/bloxapp/ssv-spec/types"
	"github.com/cornelk/hashmap"
	"go.uber.org/zap"

	"github.com/bloxapp/ssv/protocol/v2/message"
	"github.com/bloxapp/ssv/protocol/v2/qbft"
	"github.com/bloxapp/ssv/protocol/v2/qbft/controller"
	"github.com/bloxapp/ssv/protocol/v2/qbft/instance"
	qbftstorage "github.com/bloxapp/ssv/protocol/v2/qbft/storage"
	"github.com/bloxapp/ssv/protocol/v2/ssv/queue"
	"github.com/bloxapp/ssv/protocol/v2/ssv/runner"
	"github.com/bloxapp/ssv/protocol/v2/types"
)

type zzQRunner struct {
	runner.Runner
	running bool
	base    *runner.BaseRunner
	started []phase0.Slot // duties that passed the guard
	refused []phase0.Slot
}

func (r *zzQRunner) HasRunningDuty() bool               { return r.running }
func (r *zzQRunner) GetBaseRunner() *runner.BaseRunner { return r.base }
func (r *zzQRunner) StartNewDuty(l *zap.Logger, d *spectypes.Duty) error {
	if err := r.base.ShouldProcessDuty(d); err != nil {
		r.refused = append(r.refused, d.Slot)
		return err
	}
	r.started = append(r.started, d.Slot)
	r.running = true
	if r.base.State == nil {
		r.base.State = &runner.State{StartingDuty: d}
	}
	return nil
}

func zzDutyEvent(id spectypes.MessageID, slot phase0.Slot) *queue.DecodedSSVMessage {
	data, _ := json.Marshal(&types.ExecuteDutyData{Duty: &spectypes.Duty{Type: spectypes.BNRoleAttester, Slot: slot}})
	return &queue.DecodedSSVMessage{SSVMessage: &spectypes.SSVMessage{MsgType: message.SSVEventMsgType, MsgID: id, Data: []byte{1}},
		Body: &types.EventMsg{Type: types.ExecuteDuty, Data: data}}
}

// ZZHarnessConsume. Params: J messages.
func ZZHarnessConsume() {
	pk := make([]byte, 48)
	pk[0] = 0x8A
	id := spectypes.NewMsgID(types.GetDefaultDomain(), pk, spectypes.BNRoleAttester)
	H := specqbft.Height(5)
	R := specqbft.Round(zzParam("ROUND"))
	inst := &instance.Instance{State: &specqbft.State{Height: H, Round: R}}
	// consumer-visible runner state: 0 idle, 1 duty running without an instance (pre-consensus), 2 instance without an
	// accepted proposal for its round, 3 instance with one
	st := zzChoose("runnerState", 4)
	if st == 3 {
		inst.State.ProposalAcceptedForCurrentRound = &specqbft.SignedMessage{}
	}
	fr := &zzQRunner{running: st != 0,
		base: &runner.BaseRunner{State: &runner.State{RunningInstance: inst}, QBFTController: &controller.Controller{Height: H}}}
	if st < 2 {
		fr.base.State.RunningInstance = nil
	}
	ctx, cancel := context.WithCancel(context.Background())
	q := queue.New(16)
	v := &Validator{mtx: &sync.RWMutex{}, ctx: ctx, cancel: cancel,
		Share:       &types.SSVShare{Share: spectypes.Share{ValidatorPubKey: pk, Quorum: 3}},
		DutyRunners: runner.DutyRunners{spectypes.BNRoleAttester: fr},
		Queues:      map[spectypes.BeaconRole]queueContainer{spectypes.BNRoleAttester: {Q: q, queueState: &queue.State{Height: H, Quorum: 3}}},
		dutyIDs:     hashmap.New[spectypes.BeaconRole, string](),
	}
	lg := zap.NewNop()

	// what the hold-back rules say about a message in the current state
	isDutyStart := func(m *queue.DecodedSSVMessage) bool {
		e, ok := m.Body.(*types.EventMsg)
		return ok && e.Type == types.ExecuteDuty
	}
	heldBack := func(m *queue.DecodedSSVMessage) bool {
		if !fr.running {
			return !isDutyStart(m)
		}
		ri := fr.base.State.RunningInstance
		if ri != nil && ri.State.ProposalAcceptedForCurrentRound == nil {
			if sm, ok := m.Body.(*specqbft.SignedMessage); ok && sm.Message.Height == H && sm.Message.Round == ri.State.Round {
				return sm.Message.MsgType == specqbft.PrepareMsgType || sm.Message.MsgType == specqbft.CommitMsgType
			}
		}
		return false
	}

	j := int(zzParam("J"))
	var pushed []*queue.DecodedSSVMessage
	for i := 0; i < j; i++ {
		var m *queue.DecodedSSVMessage
		switch zzChoose("kind", 5) {
		case 0:
			m = zzDutyEvent(id, phase0.Slot(H)+1)
		case 4:
			m = &queue.DecodedSSVMessage{SSVMessage: &spectypes.SSVMessage{MsgType: spectypes.SSVPartialSignatureMsgType, MsgID: id, Data: []byte{1}},
				Body: &spectypes.SignedPartialSignatureMessage{Message: spectypes.PartialSignatureMessages{Type: spectypes.PostConsensusPartialSig, Slot: phase0.Slot(H)}}}
		default:
			mt := []specqbft.MessageType{specqbft.ProposalMsgType, specqbft.PrepareMsgType, specqbft.CommitMsgType}[zzChoose("ctype", 3)]
			h, r := H, R
			if zzNondetBool("otherHeight") {
				h = H + 1
			}
			if zzNondetBool("otherRound") {
				r = R + 1
			}
			m = &queue.DecodedSSVMessage{SSVMessage: &spectypes.SSVMessage{MsgType: spectypes.SSVConsensusMsgType, MsgID: id, Data: []byte{1}},
				Body: &specqbft.SignedMessage{Message: specqbft.Message{MsgType: mt, Height: h, Round: r, Identifier: id[:]}, Signers: []spectypes.OperatorID{1}}}
		}
		pushed = append(pushed, m)
		v.HandleMessage(lg, m)
	}
	zzAssert(q.Len() == j, "every-message-handed-to-the-validator-is-queued")

	seen := map[*queue.DecodedSSVMessage]int{}
	handler := func(l *zap.Logger, m *queue.DecodedSSVMessage) error {
		zzReach("handled")
		zzAssert(!heldBack(m), "a-message-held-back-by-the-consumer-rules-is-not-handed-over")
		seen[m]++
		// the effect a correct runner / instance would have on the consumer-visible state
		if !fr.running && isDutyStart(m) {
			fr.running = true
		} else if sm, ok := m.Body.(*specqbft.SignedMessage); ok && fr.running && fr.base.State.RunningInstance != nil &&
			sm.Message.MsgType == specqbft.ProposalMsgType && sm.Message.Height == H && sm.Message.Round == fr.base.State.RunningInstance.State.Round {
			fr.base.State.RunningInstance.State.ProposalAcceptedForCurrentRound = sm
			zzReach("proposal-accepted-by-handler")
		}
		return nil
	}
	// the consumer sleeps when nothing admissible is queued; it is stopped only then
	go func() { cancel() }()
	_ = v.ConsumeQueue(lg, id, handler)

	// what is left
	for {
		m := q.TryPop(queue.NewMessagePrioritizer(&queue.State{Height: H, Round: R, Quorum: 3}), queue.FilterAny)
		if m == nil {
			break
		}
		zzReach("left-over")
		zzAssert(heldBack(m), "no-admissible-message-left-behind-when-the-consumer-sleeps")
		seen[m]++
	}
	for _, m := range pushed {
		zzAssert(seen[m] == 1, "every-pushed-message-handled-exactly-once-or-still-queued")
	}
	zzReach("end")
}

// ---- C15: restart

type zzSlowStore struct {
	qbftstorage.QBFTStore
	stored *qbftstorage.StoredInstance
	reads  int
}

func (s *zzSlowStore) GetHighestInstance(identifier []byte) (*qbftstorage.StoredInstance, error) {
	s.reads++
	// reading the database takes time: every other goroutine gets to run meanwhile
	zzYield()
	zzYield()
	return s.stored, nil
}

type zzSubNet struct {
	specqbft.Network
	subs int
}

func (n *zzSubNet) Subscribe(pk spectypes.ValidatorPK) error { n.subs++; return nil }
func (n *zzSubNet) Unsubscribe(logger *zap.Logger, pk spectypes.ValidatorPK) error {
	return nil
}
func (n *zzSubNet) Peers(pk spectypes.ValidatorPK) ([]interface{}, error) { return nil, nil }

// ZZHarnessRestartStart: the stored highest decided instance has height S; a duty-start event for slot S+d
// (d in -2..1) sits in the queue when Start is called.
func ZZHarnessRestartStart() {
	pk := make([]byte, 48)
	pk[0] = 0x8A
	id := spectypes.NewMsgID(types.GetDefaultDomain(), pk, spectypes.BNRoleAttester)
	S := specqbft.Height(20)
	share := &spectypes.Share{OperatorID: 1, ValidatorPubKey: pk, Quorum: 3, PartialQuorum: 2,
		Committee: []*spectypes.Operator{{OperatorID: 1}, {OperatorID: 2}, {OperatorID: 3}, {OperatorID: 4}}}
	store := &zzSlowStore{stored: &qbftstorage.StoredInstance{
		State:          &specqbft.State{Share: share, ID: id[:], Height: S, Round: 1, Decided: true, DecidedValue: []byte{1, 2, 3}},
		DecidedMessage: &specqbft.SignedMessage{Message: specqbft.Message{MsgType: specqbft.CommitMsgType, Height: S, Round: 1, Identifier: id[:]}, Signers: []spectypes.OperatorID{1, 2, 3}},
	}}
	cfg := &qbft.Config{Domain: types.GetDefaultDomain(), Storage: store}
	ctrl := controller.NewController(id[:], share, cfg, false)
	fr := &zzQRunner{base: &runner.BaseRunner{Share: share, QBFTController: ctrl, BeaconRoleType: spectypes.BNRoleAttester}}
	ctx, cancel := context.WithCancel(context.Background())
	q := queue.New(16)
	net := &zzSubNet{}
	v := &Validator{mtx: &sync.RWMutex{}, ctx: ctx, cancel: cancel, Network: net,
		Share:       &types.SSVShare{Share: *share},
		DutyRunners: runner.DutyRunners{spectypes.BNRoleAttester: fr},
		Queues:      map[spectypes.BeaconRole]queueContainer{spectypes.BNRoleAttester: {Q: q, queueState: &queue.State{Quorum: 3}}},
		dutyIDs:     hashmap.New[spectypes.BeaconRole, string](),
	}
	lg := zap.NewNop()
	slot := phase0.Slot(uint64(S) + zzNondetRange("dslot", 0, 3) - 2)
	// the scheduler pushes duty-start events whether or not the validator was started yet
	v.HandleMessage(lg, zzDutyEvent(id, slot))

	started, err := v.Start(lg)
	zzAssume(started && err == nil)
	zzAssume(store.reads == 1 && net.subs == 1)
	// let the consumer work until it sleeps, then stop it
	for i := 0; i < 6; i++ {
		zzYield()
	}
	cancel()
	zzYield()
	zzAssert(uint64(ctrl.Height) == uint64(S), "restart-resumes-with-the-stored-highest-decided-height")
	for _, s := range fr.started {
		zzReach("duty-started")
		zzAssert(uint64(s) > uint64(S), "after-restart-no-duty-at-or-below-the-stored-highest-decided-height-is-started")
	}
	for _, s := range fr.refused {
		zzReach("duty-refused")
		_ = s
	}
	zzReach("end")
}
