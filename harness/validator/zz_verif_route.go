package validator

// C03 (routing): the real Validator.ProcessMessage / validateMessage on a message with a symbolic message id
// (validator key, role), SSV type and body type; the duty runners are recording fakes. A message reaches at
// most one runner entry point, only the runner registered for the role in its id, only when the id carries this
// validator's key, and through the entry point of its type - so a message for another validator or role can
// never reach (and make sign) a runner it is not addressed to.

import (
	specqbft "github.com/bloxapp/ssv-spec/qbft"
	spectypes "github.com/bloxapp/ssv-spec/types"
	"github.com/cornelk/hashmap"
	"go.uber.org/zap"

	"github.com/bloxapp/ssv/protocol/v2/ssv/queue"
	"github.com/bloxapp/ssv/protocol/v2/ssv/runner"
	"github.com/bloxapp/ssv/protocol/v2/types"
)

type zzCall struct {
	role  spectypes.BeaconRole
	entry int // 0 pre-consensus, 1 consensus, 2 post-consensus
}

type zzFakeRunner struct {
	runner.Runner
	role  spectypes.BeaconRole
	calls *[]zzCall
}

func (f *zzFakeRunner) ProcessPreConsensus(l *zap.Logger, m *spectypes.SignedPartialSignatureMessage) error {
	*f.calls = append(*f.calls, zzCall{f.role, 0})
	return nil
}
func (f *zzFakeRunner) ProcessConsensus(l *zap.Logger, m *specqbft.SignedMessage) error {
	*f.calls = append(*f.calls, zzCall{f.role, 1})
	return nil
}
func (f *zzFakeRunner) ProcessPostConsensus(l *zap.Logger, m *spectypes.SignedPartialSignatureMessage) error {
	*f.calls = append(*f.calls, zzCall{f.role, 2})
	return nil
}

func ZZHarnessRoute() {
	pk := make([]byte, 48)
	pk[0], pk[7] = 0x8A, 0x11
	var calls []zzCall
	v := &Validator{
		Share: &types.SSVShare{Share: spectypes.Share{ValidatorPubKey: pk}},
		DutyRunners: runner.DutyRunners{
			spectypes.BNRoleAttester: &zzFakeRunner{role: spectypes.BNRoleAttester, calls: &calls},
			spectypes.BNRoleProposer: &zzFakeRunner{role: spectypes.BNRoleProposer, calls: &calls},
		},
		dutyIDs: hashmap.New[spectypes.BeaconRole, string](),
	}
	// the message
	mpk := append([]byte{}, pk...)
	mpk[7] = zzNondetByte("pk7")
	role := spectypes.BeaconRole(zzNondetRange("role", 0, 9))
	msgID := spectypes.NewMsgID(spectypes.DomainType{0, 0, 3, 1}, mpk, role)
	mt := spectypes.MsgType(zzNondetRange("msgtype", 0, 300))
	var data []byte
	if zzNondetBool("hasData") {
		data = []byte{1}
	}
	ptype := spectypes.PartialSigMsgType(zzNondetRange("ptype", 0, 8))
	var body interface{}
	bodyKind := zzChoose("body", 4)
	switch bodyKind {
	case 0:
		body = &specqbft.SignedMessage{Message: specqbft.Message{Identifier: msgID[:]}}
	case 1:
		body = &spectypes.SignedPartialSignatureMessage{Message: spectypes.PartialSignatureMessages{Type: ptype}}
	case 2:
		body = &types.EventMsg{Type: types.EventType(77)}
	case 3:
		body = nil
	}
	msg := &queue.DecodedSSVMessage{SSVMessage: &spectypes.SSVMessage{MsgType: mt, MsgID: msgID, Data: data}, Body: body}
	err := v.ProcessMessage(zap.NewNop(), msg)

	zzAssert(len(calls) <= 1, "a-message-reaches-at-most-one-runner-entry-point")
	if len(calls) == 1 {
		zzReach("routed")
		c := calls[0]
		zzAssert(mpk[7] == pk[7], "only-messages-for-this-validator-reach-a-runner")
		zzAssert(c.role == role, "only-the-runner-of-the-role-in-the-message-id")
		switch c.entry {
		case 1:
			zzAssert(mt == spectypes.SSVConsensusMsgType && bodyKind == 0, "consensus-entry-only-for-consensus-messages")
		case 2:
			zzAssert(mt == spectypes.SSVPartialSignatureMsgType && bodyKind == 1 && ptype == spectypes.PostConsensusPartialSig, "post-consensus-entry-only-for-post-consensus-partial-signatures")
		case 0:
			zzAssert(mt == spectypes.SSVPartialSignatureMsgType && bodyKind == 1 && ptype != spectypes.PostConsensusPartialSig, "pre-consensus-entry-only-for-other-partial-signatures")
		}
	} else {
		zzReach("not-routed")
		// (that a well-formed message for this validator IS delivered is kept as a reachability witness only - "routed"
		// above -, the property is a safety property)
		_ = err
	}
}
