#!/usr/bin/env python3
"""check.py <ID> [--tier quick|thorough] [--seed N] [--only func] [--keep]

Decides one property by bounded symbolic execution of the real code of /repo:
  1. builds the gosym engine if needed (offline),
  2. for every harness function registered for the property and tier, runs one gosym process
     (encoding regenerated from /repo's working tree every time),
  3. replays every counterexample (natively through `go test -overlay` where the harness
     supports it, otherwise in the engine's concrete mode), matches it against
     known_findings.json, prints VIOLATION / KNOWN-FINDING lines,
  4. writes evidence/<ID>.json.
Exit status: 0 held (or only known findings), 1 violation.
"""
import json, os, re, subprocess, sys, time, shutil, hashlib, concurrent.futures as cf

V = os.path.dirname(os.path.abspath(__file__))
REPO = os.environ.get("VERIF_REPO") or "/repo"
GOENV = dict(os.environ, GOFLAGS="-mod=mod", GOPROXY="off", GOSUMDB="off", GOTOOLCHAIN="local")
GOMODCACHE = subprocess.run(["go", "env", "GOMODCACHE"], capture_output=True, text=True, env=GOENV).stdout.strip() or os.path.expanduser("~/go/pkg/mod")
MAXPROC = int(os.environ.get("VERIF_PROCS", "5"))


def sh(cmd, **kw):
    return subprocess.run(cmd, capture_output=True, text=True, **kw)


def build_engine():
    binp = os.path.join(V, "bin", "gosym")
    src_m = 0
    for root, _, files in os.walk(os.path.join(V, "engine")):
        for f in files:
            src_m = max(src_m, os.path.getmtime(os.path.join(root, f)))
    if os.path.exists(binp) and os.path.getmtime(binp) >= src_m:
        return binp
    os.makedirs(os.path.join(V, "bin"), exist_ok=True)
    r = sh(["go", "build", "-o", binp, "./cmd/gosym"], cwd=os.path.join(V, "engine"), env=GOENV)
    if r.returncode != 0:
        print("ENGINE-BUILD-FAILED\n" + r.stderr)
        sys.exit(2)
    return binp


def pkgname_of(path):
    for l in open(path):
        m = re.match(r"package\s+(\w+)", l)
        if m:
            return m.group(1)
    raise SystemExit("no package clause in " + path)


def gen_api(kind, pkgname, outdir):
    os.makedirs(outdir, exist_ok=True)
    t = open(os.path.join(V, "harness/api/zz_api_%s.go.tmpl" % kind)).read().replace("PKGNAME", pkgname)
    p = os.path.join(outdir, "zz_api.go")
    open(p, "w").write(t)
    return p


def render_files(run, outdir):
    """harness files; *.tmpl files are shared between packages and get the package clause of the first file"""
    files = [os.path.join(V, f) for f in run["files"]]
    pk = pkgname_of([f for f in files if not f.endswith(".tmpl")][0])
    out = []
    for f in files:
        if f.endswith(".tmpl"):
            d = os.path.join(outdir, "tmpl_" + pk)
            os.makedirs(d, exist_ok=True)
            p = os.path.join(d, os.path.basename(f)[:-5])
            open(p, "w").write(open(f).read().replace("PKGNAME", pk))
            out.append(p)
        else:
            out.append(f)
    return out, pk


def tier_sel(d, tier, key, default=None):
    """value of d[key] possibly overridden by d[tier][key]"""
    v = d.get(key, default)
    if isinstance(d.get(tier), dict) and key in d[tier]:
        v = d[tier][key]
    return v


def run_func(binp, pid, tier, run, fn, outdir, fixed=None, tag=""):
    files, pk = render_files(run, outdir)
    api = gen_api("sym", pk, os.path.join(outdir, "api_sym_" + pk))
    env = dict(tier_sel(fn, tier, "env", {}) or {})
    fs = {"name": fn["name"], "merge": fn.get("merge", []), "redirect": fn.get("redirect", {}),
          "int": bool(fn.get("int", run.get("int", False))), "maxpaths": tier_sel(fn, tier, "maxpaths", 0),
          "budget_s": tier_sel(fn, tier, "budget_s", 900), "env": env}
    if fixed is not None:
        fs["fixed"] = fixed
    spec = {"repo": REPO, "pkg": run["pkg"], "dir": run["dir"], "files": files + [api],
            "init": run.get("init", []), "redirect": run.get("redirect", {}), "merge": run.get("merge", []),
            "opaque": run.get("opaque", []), "funcs": [fs]}
    base = os.path.join(outdir, fn.get("id", fn["name"]) + tag)
    json.dump(spec, open(base + ".spec.json", "w"), indent=1)
    t0 = time.time()
    e = dict(GOENV)
    if fn.get("query_timeout_ms"):
        e["GOSYM_QUERY_TIMEOUT_MS"] = str(fn["query_timeout_ms"])
    try:
        r = subprocess.run([binp, "-spec", base + ".spec.json", "-out", base + ".result.json"], capture_output=True, text=True,
                           env=e, timeout=tier_sel(fn, tier, "budget_s", 900) + 300)
        rc, err = r.returncode, r.stderr
    except subprocess.TimeoutExpired:
        rc, err = 124, "timeout"
    open(base + ".log", "w").write(err)
    res = None
    if os.path.exists(base + ".result.json"):
        try:
            res = json.load(open(base + ".result.json"))
        except Exception:
            res = None
    return {"run": run, "fn": fn, "rc": rc, "stderr": err[-3000:], "res": res, "wall": time.time() - t0, "env": env}


def run_group(binp, pid, tier, run, fns, outdir, gomaxprocs):
    """One gosym process (one load of the package) exploring several harness functions one after the other."""
    files, pk = render_files(run, outdir)
    api = gen_api("sym", pk, os.path.join(outdir, "api_sym_" + pk))
    fss, envs = [], []
    budget = 0
    for fn in fns:
        env = dict(tier_sel(fn, tier, "env", {}) or {})
        envs.append(env)
        b = tier_sel(fn, tier, "budget_s", 900)
        budget += b
        fss.append({"name": fn["name"], "merge": fn.get("merge", []), "redirect": fn.get("redirect", {}),
                    "int": bool(fn.get("int", run.get("int", False))), "maxpaths": tier_sel(fn, tier, "maxpaths", 0),
                    "budget_s": b, "env": env})
    spec = {"repo": REPO, "pkg": run["pkg"], "dir": run["dir"], "files": files + [api],
            "init": run.get("init", []), "redirect": run.get("redirect", {}), "merge": run.get("merge", []),
            "opaque": run.get("opaque", []), "funcs": fss}
    gid = "group_" + "_".join(fn.get("id", fn["name"]) for fn in fns)[:80]
    base = os.path.join(outdir, gid)
    json.dump(spec, open(base + ".spec.json", "w"), indent=1)
    # individual specs too (used by replay / debugging)
    for fn, fs in zip(fns, fss):
        one = dict(spec, funcs=[fs])
        json.dump(one, open(os.path.join(outdir, fn.get("id", fn["name"]) + ".spec.json"), "w"), indent=1)
    t0 = time.time()
    e = dict(GOENV, GOMAXPROCS=str(gomaxprocs))
    try:
        r = subprocess.run([binp, "-spec", base + ".spec.json", "-out", base + ".result.json"], capture_output=True, text=True,
                           env=e, timeout=budget + 600)
        rc, err = r.returncode, r.stderr
    except subprocess.TimeoutExpired:
        rc, err = 124, "timeout"
    open(base + ".log", "w").write(err)
    res = None
    if os.path.exists(base + ".result.json"):
        try:
            res = json.load(open(base + ".result.json"))
        except Exception:
            res = None
    out = []
    for i, fn in enumerate(fns):
        one = None
        if res is not None:
            one = {"load_s": res.get("load_s", 0), "load_errors": res.get("load_errors"), "funcs": []}
            if res.get("funcs") and i < len(res["funcs"]):
                one["funcs"] = [res["funcs"][i]]
                json.dump(one, open(os.path.join(outdir, fn.get("id", fn["name"]) + ".result.json"), "w"))
        wall = (one["funcs"][0].get("wall_s", 0) if one and one["funcs"] else 0)
        out.append({"run": run, "fn": fn, "rc": rc, "stderr": err[-3000:], "res": one, "wall": wall, "env": envs[i]})
    return out


def native_replay(pid, run, fn, viol, outdir, env, idx):
    """Replays a model against the natively compiled real code. Returns (status, detail, path)."""
    files, pk = render_files(run, outdir)
    d = os.path.join(outdir, "replay_%s_%d" % (fn.get("id", fn["name"]), idx))
    os.makedirs(d, exist_ok=True)
    api = gen_api("native", pk, d)
    test = os.path.join(d, "zz_replay_test.go")
    open(test, "w").write("package %s\n\nimport \"testing\"\n\nfunc TestZZReplay(t *testing.T) {\n\t%s()\n\tif len(zzFails) > 0 {\n\t\tt.Fatalf(\"ZZ-FAILED %%v\", zzFails)\n\t}\n}\n" % (pk, fn["name"]))
    model = os.path.join(d, "model.json")
    json.dump({"model": viol["model"], "params": env, "label": viol["label"], "func": fn["name"], "path": viol.get("path")}, open(model, "w"), indent=1)
    rep = {os.path.join(REPO, run["dir"], os.path.basename(f)): f for f in files}
    rep[os.path.join(REPO, run["dir"], "zz_api.go")] = api
    rep[os.path.join(REPO, run["dir"], "zz_replay_test.go")] = test
    rep[os.path.join(GOMODCACHE, "github.com/quic-go/quic-go@v0.33.0/internal/qtls/go121.go")] = os.path.join(V, "native/qtls_empty.go")
    rep[os.path.join(GOMODCACHE, "github.com/quic-go/qtls-go1-20@v0.2.3/unsafe.go")] = os.path.join(V, "native/qtls_unsafe.go")
    for vpath, real in (run.get("native_overlay") or {}).items():
        rep[os.path.join(REPO, vpath)] = os.path.join(V, real)
    ov = os.path.join(d, "overlay.json")
    json.dump({"Replace": rep}, open(ov, "w"), indent=1)
    cmd = ["go", "test", "-overlay", ov, "-ldflags=-checklinkname=0", "-vet=off", "-count=1", "-v", "-run", "^TestZZReplay$", "./" + run["dir"]]
    try:
        r = subprocess.run(cmd, cwd=REPO, capture_output=True, text=True, env=dict(GOENV, ZZ_MODEL=model), timeout=600)
        out = r.stdout + r.stderr
    except subprocess.TimeoutExpired:
        out = "REPLAY-TIMEOUT"
    open(os.path.join(d, "replay.log"), "w").write(" ".join(cmd) + "\n" + out)
    label = viol["label"]
    if label.startswith("assert:"):
        ok = ("ZZ-ASSERT-FAIL " + label[len("assert:"):]) in out
    else:  # panic
        ok = "panic:" in out and "ZZ-ASSUME-VIOLATED" not in out
    if "[build failed]" in out or "[setup failed]" in out:
        return "replay-build-failed", out[-1500:], model
    return ("reproduced" if ok else "not-reproduced"), out[-1500:], model


def native_trace(pid, run, fn, model, outdir, env, tag):
    """Runs the harness natively on a concrete model; returns (set of reached labels, set of failed assertion labels, raw)."""
    v = {"model": model, "label": "trace", "path": None}
    status, detail, mpath = native_replay(pid, run, fn, v, outdir, env, tag)
    out = open(os.path.join(os.path.dirname(mpath), "replay.log")).read()
    reached = set(re.findall(r"^ZZ-REACH (.+)$", out, re.M))
    failed = set(re.findall(r"^ZZ-ASSERT-FAIL (.+)$", out, re.M))
    bad = ("[build failed]" in out) or ("panic:" in out) or ("ZZ-ASSUME-VIOLATED" in out) or ("REPLAY-TIMEOUT" in out)
    return reached, failed, bad, out[-800:]


def match_known(pid, fnname, viol):
    try:
        kf = json.load(open(os.path.join(V, "known_findings.json")))
    except Exception:
        return None
    for e in kf.get("findings", []):
        if e.get("status") != "known" or e.get("property") != pid:
            continue
        m = e.get("match", {})
        if m.get("func") and m["func"] != fnname:
            continue
        if m.get("label") and not re.fullmatch(m["label"], viol["label"]):
            continue
        if m.get("where"):
            names = {re.sub(r"\W", "_", k): v for k, v in viol["model"].items()}
            # vals('prefix'): the model values of every nondet whose name starts with the prefix (any number of them)
            model = dict(viol["model"])
            names.update({"__builtins__": {}, "any": any, "all": all, "len": len,
                          "vals": lambda pre: [v for k, v in model.items() if k.startswith(pre)]})
            try:
                if not eval(m["where"], names):
                    continue
            except Exception:
                continue
        return e
    return None


def main():
    a = sys.argv[1:]
    if not a:
        print(__doc__)
        sys.exit(2)
    pid = a[0]
    tier = os.environ.get("VERIF_TIER", "quick")
    seed = int(os.environ.get("VERIF_SEED", "0") or 0)
    only = None
    i = 1
    while i < len(a):
        if a[i] == "--tier":
            tier = a[i + 1]; i += 2
        elif a[i] == "--seed":
            seed = int(a[i + 1]); i += 2
        elif a[i] == "--only":
            only = a[i + 1]; i += 2
        else:
            i += 1
    t0 = time.time()
    cfg = json.load(open(os.path.join(V, "checks", pid + ".json")))
    binp = build_engine()
    outdir = os.path.join(V, os.environ.get("VERIF_OUTDIR", "out"), pid, tier)
    shutil.rmtree(outdir, ignore_errors=True)
    os.makedirs(outdir, exist_ok=True)
    jobs = []
    for run in cfg["runs"]:
        for fn in run["funcs"]:
            tiers = fn.get("tiers", ["quick", "thorough"])
            if tier not in tiers:
                continue
            if only and only not in (fn["name"], fn.get("id")):
                continue
            jobs.append((run, fn))
    # VERIF_SEED only permutes the order in which harnesses are started
    if seed:
        import random
        random.Random(seed).shuffle(jobs)
    results = []
    # harness functions of one package share a process (one load); at most MAXPROC processes in total
    groups = {}
    for run, fn in jobs:
        groups.setdefault(id(run), (run, []))[1].append(fn)
    total_cost = sum(tier_sel(fn, tier, "cost", 1) for _, fn in jobs) or 1
    bins = []
    for run, fns in groups.values():
        cost = sum(tier_sel(fn, tier, "cost", 1) for fn in fns)
        nb = max(1, min(len(fns), int(round(MAXPROC * cost / total_cost))))
        bs = [[0, []] for _ in range(nb)]
        for fn in sorted(fns, key=lambda f: -tier_sel(f, tier, "cost", 1)):
            b = min(bs, key=lambda x: x[0])
            b[0] += tier_sel(fn, tier, "cost", 1)
            b[1].append(fn)
        bins += [(run, b[1]) for b in bs if b[1]]
    gmp = max(2, 16 // max(1, len(bins)))
    with cf.ThreadPoolExecutor(max_workers=MAXPROC) as ex:
        futs = [ex.submit(run_group, binp, pid, tier, run, fns, outdir, gmp) for run, fns in bins]
        for f in futs:
            results += f.result()

    # translator validation: completed sample paths are re-run natively (real compiler, real libraries) and
    # must reach the same witnesses and fail no assertion
    nval = int(os.environ.get("VERIF_TRACE_SAMPLES", "1" if tier == "quick" else "6"))
    trace_jobs = []
    for r in results:
        fn, run = r["fn"], r["run"]
        fr0 = (r["res"] or {}).get("funcs") or []
        if not fr0 or run.get("replay", "native") != "native" or fn.get("replay") or nval <= 0:
            continue
        for si, smp in enumerate((fr0[0].get("samples") or [])[:nval]):
            trace_jobs.append((fn.get("id", fn["name"]), run, fn, smp, r["env"], si))

    def one_trace(job):
        name, run, fn, smp, env, si = job
        reached, failed, badrun, tail = native_trace(pid, run, fn, smp["model"], outdir, env, 900 + si)
        want = set(smp.get("reached") or [])
        if badrun or failed or not want.issubset(reached):
            return name, False, {"sample": si, "engine_reached": sorted(want), "native_reached": sorted(reached), "native_failed": sorted(failed), "tail": tail[-300:]}
        return name, True, None
    trace_results = {}
    with cf.ThreadPoolExecutor(max_workers=4) as ex:
        for name, ok, bad in ex.map(one_trace, trace_jobs):
            okc, badc = trace_results.get(name, (0, []))
            trace_results[name] = (okc + (1 if ok else 0), badc + ([bad] if bad else []))

    violations = 0
    lines = []
    warn = []
    ev_funcs = []
    tot = dict(paths=0, queries=0, solver_s=0.0, asserts=0, nontrivial=0, inconcl=0)
    samples = []
    executed = set()
    stubs = set()
    known_hit = []
    oblig = 0
    discharged = 0
    for r in results:
        fn, run = r["fn"], r["run"]
        name = fn.get("id", fn["name"])
        res = r["res"]
        fr = None
        if res and res.get("funcs"):
            fr = res["funcs"][0]
        if res is not None and res.get("load_errors"):
            # harness no longer type-checks against this tree: cannot decide (not a violation)
            warn.append("WARN harness-does-not-compile %s: %s" % (name, "; ".join(res["load_errors"][:3])))
            ev_funcs.append({"func": name, "status": "harness-does-not-compile", "errors": res["load_errors"][:5]})
            continue
        if fr is None or fr.get("fatal"):
            warn.append("WARN engine-failure %s rc=%s %s" % (name, r["rc"], (fr or {}).get("fatal") or r["stderr"][-400:]))
            ev_funcs.append({"func": name, "status": "engine-failure", "detail": (fr or {}).get("fatal") or r["stderr"][-400:]})
            continue
        wit = fr.get("witness") or {}
        inc = fr.get("inconclusive") or {}
        expected = tier_sel(fn, tier, "witness", []) or []
        missing = [w for w in expected if not wit.get(w)]
        asserts = {k: v for k, v in wit.items() if not k.startswith("end:") and not k.startswith("reach:")}
        # obligations: one per distinct assertion label reached (each checked on every path reaching it)
        vio_labels = {}
        for v in fr.get("violations") or []:
            vio_labels.setdefault(v["label"], v)
        oblig += len(asserts) + 1  # +1: absence of panics
        bad_asserts = {l[len("assert:"):] for l in vio_labels if l.startswith("assert:")}
        discharged += len([k for k in asserts if k not in bad_asserts]) + (0 if any(not l.startswith("assert:") for l in vio_labels) else 1)
        tot["paths"] += fr["paths"]; tot["queries"] += fr["queries"]; tot["solver_s"] += fr["solver_s"]
        tot["nontrivial"] += fr.get("nontrivial", 0)
        tot["inconcl"] += sum(inc.values())
        executed.update(fr.get("executed") or [])
        stubs.update(fr.get("stubs") or [])
        for s in (fr.get("samples") or [])[:3]:
            samples.append({"func": name, **s})
        fe = {"func": fn["name"], "id": name, "pkg": run["pkg"], "bounds": r["env"], "bounds_note": tier_sel(fn, tier, "bounds_note", fn.get("bounds_note", "")),
              "paths": fr["paths"], "queries": fr["queries"], "merges": fr["merges"],
              "solver_s": round(fr["solver_s"], 2), "wall_s": round(r["wall"], 1), "load_s": round(res.get("load_s", 0), 1),
              "assert_hits": asserts, "witness_reached": {k: v for k, v in wit.items() if k.startswith("reach:")},
              "path_ends": {k: v for k, v in wit.items() if k.startswith("end:")},
              "inconclusive": inc, "truncated": fr.get("truncated", False), "missing_witnesses": missing,
              "encoding": "Int (interval-aware)" if fs_int(fn, run) else "BitVec", "violations": []}
        if name in trace_results:
            okc, badc = trace_results[name]
            fe["traces_validated_against_impl"] = okc
            tot["traces"] = tot.get("traces", 0) + okc
            if badc:
                fe["trace_mismatches"] = badc
                warn.append("WARN TRANSLATOR-MISMATCH %s: %d sample path(s) behave differently when run natively" % (name, len(badc)))
        if missing:
            warn.append("WARN vacuity %s: expected witnesses not reached: %s" % (name, missing))
        if inc:
            warn.append("WARN inconclusive %s: %s" % (name, json.dumps(inc)[:600]))
        if wit.get("end:blocked") and "SCHED_PREEMPT" in (r["env"] or {}):
            # schedule-exploring run: schedules in which every goroutine ends up blocked (a deadlock of the code under
            # test); not a violation of a safety property, recorded with the evidence
            fe["deadlocked_schedules"] = wit["end:blocked"]
            warn.append("NOTE deadlock %s: %d explored schedule(s) end with every goroutine blocked (see DESIGN 0.4a)" % (name, wit["end:blocked"]))
        if fr.get("truncated"):
            warn.append("WARN truncated %s: path/time budget exhausted after %d paths" % (name, fr["paths"]))
        # group counterexamples: per label, those matching a listed known finding and the others;
        # one representative of each group is replayed (a new violation sharing a label with a known
        # finding is therefore still reported)
        groups = {}
        for v in fr.get("violations") or []:
            kf = match_known(pid, fn["name"], v)
            groups.setdefault((v["label"], kf["id"] if kf else None), (v, kf))
        fe["counterexamples_total"] = len(fr.get("violations") or [])
        for idx, ((label, _kid), (v, kf)) in enumerate(sorted(groups.items(), key=lambda kv: (kv[0][0], kv[0][1] or ""))):
            mode = run.get("replay", "native")
            if fn.get("replay"):
                mode = fn["replay"]
            status, detail, mpath = "not-replayed", "", ""
            if mode == "native":
                status, detail, mpath = native_replay(pid, run, fn, v, outdir, r["env"], idx)
                if not status.startswith("reproduced") and run.get("redirect"):
                    # a native run cannot apply the run's redirects (e.g. the injective stand-in for a hash): a
                    # counterexample that depends on one is replayed in the engine's concrete mode instead
                    rr = run_func(binp, pid, tier, run, fn, outdir, fixed=v["model"], tag=".replay%d" % idx)
                    try:
                        for vv in rr["res"]["funcs"][0].get("violations") or []:
                            if vv["label"] == label:
                                status = "reproduced(engine-concrete; native replay not applicable: depends on a redirected function)"
                                mpath = os.path.join(outdir, "%s.replay%d.spec.json" % (name, idx))
                    except Exception:
                        pass
            else:
                # engine-concrete replay: same harness with every nondet fixed to the model
                rr = run_func(binp, pid, tier, run, fn, outdir, fixed=v["model"], tag=".replay%d" % idx)
                mpath = os.path.join(outdir, "%s.replay%d.spec.json" % (name, idx))
                status = "not-reproduced"
                try:
                    for vv in rr["res"]["funcs"][0].get("violations") or []:
                        if vv["label"] == label:
                            status = "reproduced(engine-concrete)"
                except Exception:
                    status = "replay-failed"
            ve = {"label": label, "model": v["model"], "replay": status, "replay_path": mpath, "known": kf["id"] if kf else None}
            fe["violations"].append(ve)
            if not status.startswith("reproduced"):
                warn.append("WARN ENGINE-MISMATCH %s %s: counterexample did not reproduce (%s) -- not reported as violation; see %s" % (name, label, status, mpath))
                continue
            if kf:
                known_hit.append(kf["id"])
                lines.append("KNOWN-FINDING: property=%s %s [%s %s]" % (pid, kf["text"], name, label))
            else:
                violations += 1
                lines.append("VIOLATION property=%s replay=%s func=%s label=%s" % (pid, mpath, name, label))
        ev_funcs.append(fe)

    nontrivial = tot["nontrivial"]
    # extra solver obligations that involve no code (e.g. the C01 composition query)
    extra_ev = []
    for x in cfg.get("extra", []):
        if tier not in x.get("tiers", ["quick", "thorough"]):
            continue
        tx = time.time()
        try:
            rx = subprocess.run(x["cmd"], shell=True, capture_output=True, text=True, cwd=V, timeout=x.get("timeout_s", 600))
            outx = (rx.stdout + rx.stderr).strip()
        except subprocess.TimeoutExpired:
            outx = "timeout"
        okx = bool(re.search(r"->\s*%s\b" % x["expect"], outx))
        oblig += 1
        discharged += 1 if okx else 0
        extra_ev.append({"name": x["name"], "cmd": x["cmd"], "expect": x["expect"], "output": outx[-300:], "ok": okx, "wall_s": round(time.time() - tx, 2)})
        if not okx:
            if x.get("violation_if_fails"):
                violations += 1
                lines.append("VIOLATION property=%s replay=%s func=%s label=%s" % (pid, os.path.join(V, x["cmd"].split()[1]), x["name"], "extra-obligation-failed"))
            else:
                warn.append("WARN extra obligation %s: expected %s, got: %s" % (x["name"], x["expect"], outx[-200:]))
    for w in warn:
        print(w)
    for l in lines:
        print(l)
    wall = time.time() - t0
    evidence = {
        "property_id": pid, "tier": tier, "seed": seed, "level": cfg.get("level", "other"),
        "coverage": {
            "explanation": cfg.get("explanation", "") + " Technique: bounded symbolic execution of the real functions (Go SSA of /repo's working tree, regenerated this run) with an SMT solver (z3) deciding every branch feasibility and every assertion for all values of the symbolic inputs within the stated bounds.",
            "evaluations": tot["paths"], "distinct_nontrivial": nontrivial,
            "rule": "evaluations = symbolic paths explored (each path is a distinct decision sequence and stands for all inputs satisfying its path condition); distinct_nontrivial = paths (counted by the engine) that reached at least one harness assertion or reachability witness with a satisfiable path condition",
            "obligations": oblig, "discharged": discharged,
            "traces_validated_against_impl": tot.get("traces", 0),
            "solver_queries": tot["queries"], "solver_wall_s": round(tot["solver_s"], 2), "inconclusive_paths": tot["inconcl"],
            "checker_cmd": "python3 /verif/check.py %s --tier %s" % (pid, tier),
            "solver": sh(["z3", "--version"]).stdout.strip(),
            "functions_encoded": sorted(executed), "stubs_and_summaries_hit": sorted(stubs),
            "harnesses": ev_funcs, "extra_obligations": extra_ev, "samples": samples or [{"note": "no completed sample path"}],
            "known_findings_matched": sorted(set(known_hit)), "warnings": warn,
            "outside_claim": cfg.get("outside", []),
            "exhaustive": False,
        },
        "assumptions": cfg.get("assumptions", []),
        "wall_s": round(wall, 1), "violations": violations,
    }
    # (VERIF_EVIDENCE_DIR: experiments against a scratch copy of the repository - seeded changes - must not
    #  overwrite the registered evidence, which always comes from /repo itself)
    evdir = os.path.join(V, os.environ.get("VERIF_EVIDENCE_DIR", "evidence"))
    os.makedirs(evdir, exist_ok=True)
    json.dump(evidence, open(os.path.join(evdir, pid + ".json"), "w"), indent=1)
    print("%s tier=%s harnesses=%d paths=%d queries=%d obligations=%d/%d violations=%d known=%d wall=%.0fs" % (
        pid, tier, len(results), tot["paths"], tot["queries"], discharged, oblig, violations, len(set(known_hit)), wall))
    sys.exit(1 if violations else 0)


def fs_int(fn, run):
    return bool(fn.get("int", run.get("int", False)))


if __name__ == "__main__":
    main()
